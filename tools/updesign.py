#!/usr/bin/env python3
"""Regenerates the seeded-change table of DESIGN.md §9.2 from /verif/seeded/*/meta.json."""
import subprocess,re
t=subprocess.run(['python3','/verif/tools/seedtable.py'],capture_output=True,text=True).stdout
p='/verif/DESIGN.md'
s=open(p).read()
i=s.index('| seeded change | what it breaks |')
j=s.index('Misses are kept in the corpus')
s=s[:i]+t+'\n'+s[j:]
open(p,'w').write(s)
print("table rows:", t.count('\n')-2)
