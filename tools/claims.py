CLAIMED["C18"] = dict(
    text="Every Put/FromBytes pair under contract is proved, for all field values and all byte strings, to write/read exactly the ABI offsets and lengths (postconditions over little-/big-endian byte expressions), to reject short buffers, and to leave bytes outside the record untouched; all index/slice/nil obligations of those functions are discharged.",
    note="binary.ByteOrder accessors are modelled by their arithmetic definition; copy() of constant length is unrolled. See evidence trusted_base for havocked calls.",
)
