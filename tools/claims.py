CLAIMED["C18"] = dict(
    text="Every Put/FromBytes pair under contract is proved, for all field values and all byte strings, to write/read exactly the ABI offsets and lengths (postconditions over little-/big-endian byte expressions), to reject short buffers, and to leave bytes outside the record untouched; all index/slice/nil obligations of those functions are discharged.",
    note="binary.ByteOrder accessors are modelled by their arithmetic definition; copy() of constant length is unrolled. See evidence trusted_base for havocked calls.",
)
CLAIMED["C01"] = dict(
    text="Postcondition chain: every accepting return of verify.CheckCertificate / EndorsementProto / Endorsement / the SNP validator closure / gcetcbendorsement.TdxValidate implies authentic(payload, signature, caller roots, caller time) — chain check of the embedded certificate against the caller's pool at the caller's time and RSA-PSS/SHA-256 signature over exactly the stored payload bytes — proved for all inputs from the real SSA, with crypto/x509 represented by assumed contracts; SevValidate is proved to register the validator built from the caller's roots, time and endorsement as a *required* certificate-table entry (precondition of the assumed go-sev-guest contract).",
    note="Assumed: crypto/x509 ParseCertificate/Verify/CheckSignature contracts (/verif/stubs/x509.spec), protobuf Unmarshal model (deterministic decode), HTTPSGetter. The RSA/X.509 mathematics is not verified.",
)
CLAIMED["C02"] = dict(
    text="verify.SNP is proved to accept only when the supplied measurement is byte-equal to the endorsed measurement for the named VMSA count (or to some listed measurement when none is named); EndorsementProto's digest comparison and the closure's 48-byte gate and use of this report's measurement are postconditions proved for all inputs.",
    note="bytes.Equal is modelled as equality of abstract content values; protobuf decoding is an uninterpreted deterministic function of the bytes.",
)
CLAIMED["C09"] = dict(
    text="Frame conditions: the validator constructor, the validator closure and everything they call (EndorsementProto, Endorsement, SNP, CheckCertificate) are proved to write only memory allocated during the call (every store and every callee's assigns set is checked against the entry watermark), so concurrent or successive invocations share only read-only state; data-race freedom then gives each call its isolated result.",
    note="The step from 'no shared writes' to 'same result under every interleaving' is a meta-argument (DRF => SC), not machine-checked. Library objects (CertPool, Getter, protobuf runtime) are assumed safe for concurrent use.",
)
CLAIMED["C17"] = dict(
    text="SevPolicy/TdxPolicy and their helpers are proved, for all base policies, endorsements and options, to write only freshly allocated memory (the base policy is untouched), to preserve every set base value or fail (guest policy, measurement, minimum SVN, MRTD allow-list), to place exactly the endorsement's measurement / policy / CA-bundle PEM blocks in the result, and to carry the unrelated scalar and bytes fields of the base over unchanged.",
    note="proto.Clone is modelled as a fresh deep copy (depth 3); pem.Decode by an uninterpreted deterministic function; element-wise equality of the repeated trusted-key fields after SevPolicy is proved at modifyPolicy level only (listed as not covered at SevPolicy level).",
)
CLAIMED["C14"] = dict(
    text="tryChange and RetrySubmit are proved against ghost counters on the VersionControl/ChangeOps interfaces, with the error of every interface call a free variable (all outcome sequences): at most max(retries,0)+1 workspaces are requested, a further attempt follows only a retriable error, every failed attempt's workspace is destroyed, success is reported exactly when a commit succeeded and Result is recorded once; changeEndorsements parses the manifest bytes it just read from this attempt's workspace.",
    note="Interface methods are assumed contracts with ghost counters (/verif/stubs/endorse_ifaces.spec); the caller-supplied change function is assumed not to touch the counters other than through its arguments; retry budget == MaxInt is excluded (bound not representable).",
)
CLAIMED["C15"] = dict(
    text="With DryRun set no VersionControl.GetChangeOps and no ChangeOps method is invoked on any path of VirtualFirmware/commitEndorsement/RetrySubmit/tryChange/changeEndorsements/addEndorsement/snapshotEndorsement/defaultGenerateBasename/fileExists/writeEndorsement (ghost call counters unchanged, and every interface call on the absent workspace is proved unreachable: nil-invoke obligations); with MeasurementOnly additionally no Signer or CertificateAuthority method is invoked; the golden measurement handed to SignDoc is the one GoldenMeasurement returned.",
    note="Flag wiring in cmd/ is not under contract. Interface implementations are assumed contracts; FromContext lookups are trusted to be deterministic functions of the context.",
)
CLAIMED["C06"] = dict(
    text="GoldenMeasurement is proved to put SHA-384 of the supplied image, the requested ClSpec/Commit/SVSM measurement and exactly the requested technology sections (each computed from that same image) in the document; SignDoc is proved to embed the primary key's certificate and bundle before marshalling and to sign nothing but the marshalled document.",
    note="sev.UnsignedSnp / tdx.UnsignedTDX are represented here by their contracts (per-count and per-shape content is checked under their own functions; see evidence for which are verified). protobuf Marshal/Unmarshal are modelled as inverse on scalar and bytes fields.",
)
CLAIMED["C03"] = dict(
    text="SignDoc's contract: the signature request is for the SHA-256 of exactly the bytes stored as SerializedUefiGolden, with PSS options salt=hash-length/SHA-256 (precondition of the Signer contract), under the key the authority names primary; the embedded certificate and bundle are the authority's for that same key and are set before marshalling; the returned signature is stored unchanged. Together with C01's EndorsementProto contract (verification over the stored bytes with the embedded certificate) these are the sign/verify halves of the property.",
    note="The cryptographic step (PSS verify accepts what PSS sign produced; certificate created by the CA chains to its root) and the key-rotation history are assumed, not proved here; see DESIGN.md §6 C03.",
)
CLAIMED["C20"] = dict(
    text="gcpkms.Signer.Sign is proved to return a signature only when the response CRC32C matches it and both request checksums were confirmed, and only for PSS/SHA-256 options (and to send the digest checksum, a precondition of the assumed KMS contract); destroyableState is proved against the state table; wipeoutKey, Wipeout and getEnabledOrPendingKeyVersion are proved, for every number of versions and every legal pagination (page length a free variable per call), to terminate (decreases on remaining items), to visit every item, to leave no ENABLED/DISABLED version when no RPC fails, and to prefer an ENABLED version; the polling functions return only names whose last observed state is ENABLED (partial correctness).",
    note="The KMS service is an assumed paging model (/verif/stubs/kms.spec): fixed item sequence per listing, non-empty pages until the end, empty next-page token exactly at the end, every RPC may fail. Termination of the polling loop depends on the service and ctx and is not claimed.",
)
CLAIMED["C10"] = dict(
    text="rotate.Key is proved against a ghost model of key-manager and certificate-authority state in which the error result of every interface call is a free variable (every single and multiple fault position): the invariant 'recorded primary signing key is live and certified' is a precondition of every manager/authority call (so it holds at every call boundary, i.e. after a crash following any call) and a postcondition of every return; DestroyKeyVersion is only ever called on a key that is not the durable primary; Finalize is never called with an uncertified or dead pending primary; on success the new key is the durable primary and the previous one is destroyed.",
    note="Interface contracts (/verif/stubs/keymgmt.spec) are assumed for all key managers and authorities, including Finalize's partial-failure behaviour; the implementations are not verified against them here. 'A later fault-free rotation succeeds' (liveness) is not claimed.",
)
CLAIMED["C12"] = dict(
    text="Certificate-profile contracts: sign/ops.GoogleCertificateTemplate and nonprod certs.TemplateFromCert are proved, for all inputs, to produce templates whose certificate serial equals the subject serial, with the documented lifetimes (RootValidDays / SignValidDays from NotBefore), CA flag, key usages, PSS/SHA-256 signature algorithm and issuer; gcsca.writeIfAllowed is proved never to rewrite an existing object without overwrite permission; rotate.Key (C10 contract) destroys exactly the previous primary.",
    note="The history-level clauses (serial one greater than the predecessor's unless overridden, key-version names never reused, wipeout leaves nothing usable) are not proved: no inductive history lemma was built; they are listed as not covered in DESIGN.md. big.Int and time arithmetic are uninterpreted.",
)
CLAIMED["C16"] = dict(
    text="Naming: extractsev/extracttdx.GCETcbObjectName and verify.GCETcbURL are proved equal to the defined string functions (fmt.Sprintf with constant format modelled as concatenation, hex encoding as an injective function), and lemmas over those definitions prove injectivity in the measurement and SEV/TDX separation. Discovery: every network Getter.Get issued by extract.Endorsement is proved to be for a URL derived from a 48-byte measurement (precondition of the Getter contract at the call site); with no event log and no forced fetch a locally found blob is returned byte-for-byte with no Getter call.",
    note="Event-log locator precedence, efivarfs confinement (securejoin) and SP800-155 event emission/parse-back are not under contract (listed as not covered). extract.Attestation and fromEventLog are represented by unverified (assumed) in-repo contracts.",
)
CLAIMED["C11"] = dict(
    text="gcsca.writeIfAllowed is proved against a ghost object store: an object write never removes an object, an existing object is only rewritten with overwrite permission, and certificate/root writes never touch the manifest object; this is the write primitive of Finalize.",
    note="Partial: the Finalize/upload loop invariant (every manifest entry names a stored object before the manifest is written; manifest written last) is not yet proved — see DESIGN.md §9; single-object write atomicity is assumed (storage/ops.WriteFile trusted contract).",
)
