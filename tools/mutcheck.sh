#!/bin/bash
# usage: mutcheck.sh <patch.diff | -e 'sed-expr' file> -- Cxx [Cyy...]
# Applies a change to a scratch copy of /repo and runs the quick checks against it.
set -u
D=$(mktemp -d /dev/shm/mut-XXXXXX)
trap 'rm -rf "$D"' EXIT
cp -r /repo/. "$D"/
if [ "$1" = "-e" ]; then
  sed -i -e "$2" "$D/$3"; shift 3
else
  P=$(readlink -f "$1"); (cd "$D" && git apply --whitespace=nowarn "$P") || { echo "patch failed"; exit 3; }; shift
fi
[ "$1" = "--" ] && shift
rc=0
for p in "$@"; do
  VERIF_REPO="$D" VERIF_EVIDENCE_DIR="$D/.evidence" /verif/bin/govc check "$p" | sed "s|$D|<scratch>|g"
  r=${PIPESTATUS[0]}; [ $r -ne 0 ] && rc=$r
done
exit $rc
