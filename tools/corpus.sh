#!/bin/bash
# Must-fail corpus: every selftest patch (reverse of a fix / deliberate break) and every kept seeded change must
# make its property's quick check report a VIOLATION. Prints one line per case; exit 1 if any is missed.
cd "$(dirname "$0")/.."
miss=0
run() { # patch prop
  props="$2"; m="$(dirname $1)/meta.json"
  # a seeded change recorded as detected by another property's check (meta.json violations) is run against that one too
  [ -f "$m" ] && props="$props $(grep -o 'VIOLATION property=C[0-9]*' "$m" | sed 's/.*=//' | sort -u | grep -v "^$2\$" | tr '\n' ' ')"
  out=$(./tools/mutcheck.sh "$1" -- $props 2>&1)
  if echo "$out" | grep -q "^VIOLATION property="; then echo "caught  $2 $1 ($(echo "$out" | grep -o '^VIOLATION property=C[0-9]*' | sed 's/.*=//' | sort -u | tr '\n' ' '))"
  elif [ -f "$(dirname $1)/meta.json" ] && grep -q '"detected_by_quick_check": false' "$(dirname $1)/meta.json"; then echo "known-miss $2 $1 (recorded as not detected)"
  else echo "MISSED  $2 $1: $(echo "$out" | tail -1)"; miss=1; fi
}
export -f run
( for p in selftest/C*/*.patch; do echo "$p $(basename $(dirname $p))"; done
  for d in seeded/*/; do echo "${d}patch.diff $(basename $d | cut -d- -f1)"; done ) | xargs -P 3 -L 1 bash -c 'run $0 $1'
