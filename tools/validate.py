#!/opt/veriftools/pyvenv/bin/python
import json, jsonschema, glob, sys
jsonschema.validate(json.load(open('/verif/MANIFEST.json')), json.load(open('/root/.vp/MANIFEST.schema.json')))
es = json.load(open('/root/.vp/EVIDENCE.schema.json'))
m = json.load(open('/verif/MANIFEST.json'))
bad = 0
for c in m['checks']:
    try:
        jsonschema.validate(json.load(open(c['evidence_file'])), es)
    except Exception as e:
        print("BAD evidence", c['property_id'], str(e)[:200]); bad += 1
print("manifest valid; evidence bad =", bad)
sys.exit(1 if bad else 0)
