#!/bin/bash
# usage: demo.sh <repo-dir> <pkg-dir-relative> <test-file> <RunRegex>
# Injects <test-file> into the package via -overlay (nothing is written to the repo) and runs it.
set -u
REPO="$1"; PKG="$2"; TF="$(readlink -f "$3")"; RUN="$4"
OV=$(mktemp /dev/shm/ov-XXXXXX.json)
trap 'rm -f "$OV"' EXIT
printf '{"Replace":{"%s/%s/zz_demo_verif_test.go":"%s"}}' "$REPO" "$PKG" "$TF" > "$OV"
cd "$REPO/$PKG" && GOPROXY=off GOSUMDB=off GOTOOLCHAIN=local GOFLAGS= go test -overlay "$OV" -vet=off -count=1 -timeout 120s -run "$RUN" . 2>&1 | tail -${DEMO_TAIL:-15}
exit ${PIPESTATUS[0]}
