#!/usr/bin/env python3
"""usage: model.py <replay.json> [regex]  — print scalar definitions from the solver model."""
import json,re,sys
r=json.load(open(sys.argv[1]))
m=r['solver_output']
pat=re.compile(sys.argv[2]) if len(sys.argv)>2 else None
for mm in re.finditer(r'\(define-fun (\|[^|]+\||\S+) \(\) (Int|Bool|String)\s+([^\n]+)\)', m):
    n=mm.group(1)
    if pat is None or pat.search(n):
        print(n, '=', mm.group(3))
