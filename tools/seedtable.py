#!/usr/bin/env python3
"""Prints the markdown table of kept seeded changes and self-test patches with the obligations that catch them."""
import json, glob, os, re
rows=[]
for d in sorted(glob.glob('/verif/seeded/*/')):
    m=json.load(open(d+'meta.json'))
    raw=m.get('what_it_breaks_and_needs','')
    about=re.sub(r'\s+',' ',raw).strip()
    about=re.sub(r'^#+\s*','',about)
    if not re.match(r'[*_`]*MUT\s*[0-9]', about):
        # the notes section picked up is a preamble: describe the change by its files and first added comment instead
        diff=open(d+'patch.diff').read()
        files=re.findall(r'^\+\+\+ b/(\S+)', diff, re.M)
        cm=[l[1:].strip().lstrip('/').strip() for l in diff.split('\n') if l.startswith('+') and not l.startswith('+++') and l[1:].strip().startswith('//')]
        about=', '.join(files)+(': '+' '.join(cm[:2]) if cm else '')
    about=about[:230].replace('|','/')
    props=sorted(set(re.findall(r'VIOLATION property=(C[0-9]+)', ' '.join(m.get('violations',[])))))
    vs=m.get('violations',[])
    obl=[re.search(r'obligation=\S*?([A-Za-z0-9_.()*$]+#[^ ]+)',v) for v in vs]
    obl=[o.group(1) for o in obl if o][:3]
    rows.append((os.path.basename(d.rstrip('/')), about, ('yes ('+', '.join(props)+')' if props else 'yes') if m.get('detected_by_quick_check') else '**no**', ', '.join(obl) if obl else '—'))
print('| seeded change | what it breaks | caught by quick check | failing obligation(s) |')
print('|---|---|---|---|')
for r in rows: print('| %s | %s | %s | %s |'%r)
