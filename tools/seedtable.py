#!/usr/bin/env python3
"""Prints the markdown table of kept seeded changes and self-test patches with the obligations that catch them."""
import json, glob, os, re
rows=[]
for d in sorted(glob.glob('/verif/seeded/*/')):
    m=json.load(open(d+'meta.json'))
    about=re.sub(r'\s+',' ',m.get('what_it_breaks_and_needs','')).strip()
    about=re.sub(r'^#+\s*','',about)[:230]
    vs=m.get('violations',[])
    obl=[re.search(r'obligation=\S*?([A-Za-z0-9_.()*$]+#[^ ]+)',v) for v in vs]
    obl=[o.group(1) for o in obl if o][:3]
    rows.append((os.path.basename(d.rstrip('/')), about, 'yes' if m.get('detected_by_quick_check') else '**no**', ', '.join(obl) if obl else '—'))
print('| seeded change | what it breaks | caught by quick check | failing obligation(s) |')
print('|---|---|---|---|')
for r in rows: print('| %s | %s | %s | %s |'%r)
