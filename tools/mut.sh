#!/bin/bash
# usage: mut.sh <file-rel> <old-text> <new-text> -- Cxx...   (exact text replacement on a scratch copy)
set -u
D=$(mktemp -d /dev/shm/mut-XXXXXX); trap 'rm -rf "$D"' EXIT
cp -r /repo/. "$D"/
python3 - "$D/$1" "$2" "$3" <<'PY' || exit 3
import sys
p,old,new=sys.argv[1:4]
s=open(p).read()
if old not in s: print("pattern not found"); sys.exit(1)
open(p,'w').write(s.replace(old,new,1))
PY
(cd "$D" && GOPROXY=off GOSUMDB=off GOTOOLCHAIN=local GOFLAGS= go build ./... 2>&1 | head -5)
shift 3; [ "$1" = "--" ] && shift
for p in "$@"; do VERIF_REPO="$D" VERIF_EVIDENCE_DIR="$D/.evidence" /verif/bin/govc check "$p" | sed "s|$D|<scratch>|g" | cut -c1-230 | tail -${MUT_TAIL:-3}; done
