#!/bin/bash
# usage: seedeval.sh Cxx [props-to-run...]  — evaluates /tmp/wt-Cxx/MUT{1,2}.diff with the quick checks
P=$1; shift; PROPS="${@:-$P}"
for i in 1 2; do
  f=/tmp/wt-$P/MUT$i.diff
  [ -f $f ] || continue
  echo "=== $P MUT$i"
  /verif/tools/mutcheck.sh $f -- $PROPS | cut -c1-260 | grep -v "^KNOWN" | tail -4
done
