#!/usr/bin/env python3
"""Regenerates /verif/MANIFEST.json from the table below (single source of truth for claims)."""
import json, subprocess, os
BASE = json.load(open('/root/.vp/BASELINE.json'))
# property -> dict(text, note, technique) for claimed checks
CLAIMED = {}
NA = {}
exec(open(os.path.join(os.path.dirname(__file__), 'claims.py')).read())
props = [json.loads(l)['id'] for l in open('/verif/properties.jsonl')]
checks = []
for p in props:
    if p in CLAIMED:
        c = CLAIMED[p]
        checks.append({
            "property_id": p,
            "quick_cmd": f"./check {p} --tier quick",
            "thorough_cmd": f"./check {p} --tier thorough",
            "evidence_file": f"/verif/evidence/{p}.json",
            "replay_cmd_template": "cat {path}",
            "engine": "govc",
            "level_claimed": {"category": c.get("category", "proof"), "text": c["text"], "design_ref": f"DESIGN.md §6 {p}"},
            "level_note": c["note"],
            "technique": c.get("technique", "contract-based deductive verification: weakest-precondition VCs over go/ssa of the real code, discharged by z3/cvc5"),
        })
na = [{"property_id": p, "reason": NA.get(p, "check not built yet in this session (work in progress; see DESIGN.md §9)")} for p in props if p not in CLAIMED]
try:
    commits = subprocess.check_output(['git', '-C', '/repo', 'log', '--format=%H %s', '99673c8..HEAD'], text=True).strip().split('\n')
except Exception:
    commits = []
hook_commits = [c.split()[0] for c in commits if c and ('verif:' in c or 'contracts' in c) and not c.split(' ', 1)[1].startswith('fix:')]
m = {
    "version": 1,
    "setup_cmd": "./setup.sh",
    "hooks": {
        "guard": "verif",
        "enable": "go build tag `verif` (-tags=verif): adds comment-only contract files zz_contracts_verif.go; no executable hook exists",
        "baseline_off_cmd": BASE["cmd"],
        "source_commits": hook_commits,
        "add_only": True,
    },
    "engines": [{"name": "govc", "path": "/verif/engine", "serves_properties": sorted(CLAIMED), "kind_free_text": "verification-condition generator for Go (go/ssa -> SMT-LIB, contracts as //@ comments) with z3/cvc5 back ends"}],
    "checks": checks,
    "not_applicable": na,
    "notes": "Contracts live in /repo/**/zz_contracts_verif.go (build tag verif), assumed contracts of external code in /verif/stubs, lemmas in /verif/lemmas, known findings in /verif/known_findings.txt.",
}
json.dump(m, open('/verif/MANIFEST.json', 'w'), indent=1)
print("claimed:", sorted(CLAIMED), "n/a:", [x['property_id'] for x in na])
