#!/bin/bash
# Runs every claimed check (tier $1, default quick) on /repo, 4 at a time; prints one summary line each.
cd "$(dirname "$0")/.."
tier=${1:-quick}
ids=$(python3 -c "import json;print(' '.join(c['property_id'] for c in json.load(open('MANIFEST.json'))['checks']))" 2>/dev/null)
[ -n "$2" ] && ids="${@:2}"
echo $ids | tr ' ' '\n' | xargs -P 4 -I{} sh -c "./check {} --tier $tier 2>&1 | grep -E '^(property=|VIOLATION|ERROR|KNOWN)' | sed 's/^/{}: /'"
