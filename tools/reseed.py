#!/usr/bin/env python3
"""usage: reseed.py <seeded-dir-name>... — re-runs the quick check against kept seeded changes and updates meta.json"""
import sys, json, subprocess, re
for name in sys.argv[1:]:
    d=f"/verif/seeded/{name}"; P=name.split('-')[0]
    r=subprocess.run(f"/verif/tools/mutcheck.sh {d}/patch.diff -- {P}",shell=True,capture_output=True,text=True)
    out=r.stdout+r.stderr
    viol=[l for l in out.splitlines() if l.startswith("VIOLATION")]
    m=json.load(open(d+"/meta.json"))
    m["detected_by_quick_check"]= r.returncode==1 and len(viol)>0
    m["violations"]=[re.sub(r"replay=\S+ ","",v)[:300] for v in viol]
    json.dump(m,open(d+"/meta.json","w"),indent=1)
    print(name, "detected" if m["detected_by_quick_check"] else "NOT detected", len(viol))
