#!/usr/bin/env python3
"""usage: seedkeep.py Cxx — confirm and store /tmp/wt-Cxx/MUT{1,2} under /verif/seeded/<Cxx>-<i>/.
Confirms: patch applies, builds, demo FAILS with the patch and PASSES without, quick check reports a VIOLATION."""
import sys, os, re, json, subprocess, shutil, tempfile
P = sys.argv[1]
env = dict(os.environ, GOPROXY="off", GOSUMDB="off", GOTOOLCHAIN="local", GOFLAGS="")
def sh(cmd, cwd=None):
    r = subprocess.run(cmd, shell=True, cwd=cwd, env=env, capture_output=True, text=True)
    return r.returncode, (r.stdout + r.stderr)
notes = open(f"/tmp/wt-{P}/MUTATIONS.md").read() if os.path.exists(f"/tmp/wt-{P}/MUTATIONS.md") else ""
for i in (1, 2):
    diff = f"/tmp/wt-{P}/MUT{i}.diff"; demo = f"/tmp/wt-{P}/MUT{i}_demo_test.go.txt"
    if not os.path.exists(diff): continue
    head = open(demo).read(3000)
    m = re.search(r"\s-run\s+'?\"?([A-Za-z0-9_|^$.]+)", head)
    run = m.group(1)
    m = re.search(r"go test[^\n]*?\s(\./[A-Za-z0-9_/]+|\.)\s*$", head, re.M)
    pkg = m.group(1).strip("./").rstrip("/") if m else None
    mc = re.search(r"Copy into:\s*([A-Za-z0-9_/]+?)/?\s", head)
    if mc:
        pkg = mc.group(1).rstrip("/")
    mt = re.search(r"Copy (?:in)?to:\s*`?([A-Za-z0-9_/]+)/[A-Za-z0-9_]+\.go", head)
    if mt:
        pkg = mt.group(1)
    md = re.search(r"package directory:?\s+`?([A-Za-z0-9_/]+[A-Za-z0-9_])", head)
    if md:
        pkg = md.group(1)
    if pkg is None or pkg == "":
        m = re.search(r"(?:Copy (?:in)?to[^:]*:\s*)([A-Za-z0-9_/]+)/", head); pkg = m.group(1)
    mod = "gcetcbendorsement" if pkg.startswith("gcetcbendorsement") else ""
    res = {}
    for variant in ("with", "without"):
        d = tempfile.mkdtemp(prefix="seed-", dir="/dev/shm")
        sh(f"cp -r /repo/. {d}/")
        if variant == "with":
            rc, out = sh(f"git apply --whitespace=nowarn {diff}", cwd=d)
            if rc: print("patch failed", out); sys.exit(1)
            rc, out = sh("go build ./... && (cd gcetcbendorsement && go build ./...)", cwd=d)
            res["build_ok"] = rc == 0
        shutil.copy(demo, f"{d}/{pkg}/zz_seed_demo_test.go")
        rel = pkg[len(mod):].lstrip("/") if mod else pkg
        rc, out = sh(f"go test -count=1 -timeout 300s -run '{run}' ./{rel}/" if rel else f"go test -count=1 -run '{run}' .", cwd=f"{d}/{mod}" if mod else d)
        res["demo_" + variant] = "FAIL" if rc else "PASS"
        res["demo_" + variant + "_tail"] = out[-600:]
        shutil.rmtree(d)
    props = os.environ.get("SEED_PROPS", P)
    rc, out = sh(f"/verif/tools/mutcheck.sh {diff} -- {props}")
    viol = [l for l in out.splitlines() if l.startswith("VIOLATION")]
    res["check_exit"] = rc; res["violations"] = [re.sub(r"replay=\S+ ", "", v)[:300] for v in viol]
    ok = res.get("build_ok") and res["demo_with"] == "FAIL" and res["demo_without"] == "PASS"
    print(P, i, "build", res.get("build_ok"), "demo with/without:", res["demo_with"], res["demo_without"], "check exit", rc, "violations", len(viol), "=> keep" if ok else "=> NOT confirmed")
    if not ok: continue
    if "SEED_FORCE_OFFSET" in os.environ:
        k = i + int(os.environ["SEED_FORCE_OFFSET"])
    else:
        # never overwrite a stored seed: continue after the highest index in use for this property (re-storing the
        # same patch reuses its slot)
        import glob
        used = {int(d.rsplit("-", 1)[1]): d for d in glob.glob(f"/verif/seeded/{P}-*")}
        same = [n for n, d in used.items() if open(d + "/patch.diff").read() == open(diff).read()]
        k = same[0] if same else (max(used) + 1 if used else 1)
    dst = f"/verif/seeded/{P}-{k}"; os.makedirs(dst, exist_ok=True)
    shutil.copy(diff, f"{dst}/patch.diff"); shutil.copy(demo, f"{dst}/demo_test.go.txt")
    sec = re.split(r"\n(?=#+ )", notes)
    about = next((s for s in sec if f"MUT{i}" in s[:200]), "")[:3000]
    json.dump({"property": P, "source": "independent sub-agent given only the property text and a scratch worktree",
               "demo": {"package_dir": pkg, "run": run}, "what_it_breaks_and_needs": about,
               "confirmed": {"build_ok": res["build_ok"], "demo_with_patch": res["demo_with"], "demo_without_patch": res["demo_without"]},
               "ran": [f"git apply patch.diff; go build ./...", f"go test -run '{run}' ./{pkg}/ (with and without the patch)", f"/verif/tools/mutcheck.sh patch.diff -- {props}"],
               "detected_by_quick_check": rc == 1 and len(viol) > 0, "violations": res["violations"]}, open(f"{dst}/meta.json", "w"), indent=1)
