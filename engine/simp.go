package main

import (
	"fmt"
	"os"
	"sort"
	"strconv"
	"strings"
)

// A tiny s-expression simplifier used on obligation goals (constant folding of comparisons between
// numerals, known non-nil references, and/or/not/=> folding) so that trivially true obligations are not
// sent to a solver.

type sx struct {
	atom string
	kids []*sx
}

func parseSx(s string) *sx {
	p := 0
	var rec func() *sx
	rec = func() *sx {
		for p < len(s) && s[p] == ' ' {
			p++
		}
		if p >= len(s) {
			return &sx{atom: ""}
		}
		if s[p] == '(' {
			p++
			n := &sx{}
			for {
				for p < len(s) && s[p] == ' ' {
					p++
				}
				if p >= len(s) {
					break
				}
				if s[p] == ')' {
					p++
					break
				}
				n.kids = append(n.kids, rec())
			}
			return n
		}
		st := p
		if s[p] == '|' {
			p++
			for p < len(s) && s[p] != '|' {
				p++
			}
			p++
		} else if s[p] == '"' {
			p++
			for p < len(s) {
				if s[p] == '"' {
					if p+1 < len(s) && s[p+1] == '"' {
						p += 2
						continue
					}
					break
				}
				p++
			}
			p++
		} else {
			for p < len(s) && s[p] != ' ' && s[p] != ')' && s[p] != '(' {
				p++
			}
		}
		return &sx{atom: s[st:p]}
	}
	return rec()
}

func (n *sx) String() string {
	if n.kids == nil {
		return n.atom
	}
	var b strings.Builder
	b.WriteByte('(')
	for i, k := range n.kids {
		if i > 0 {
			b.WriteByte(' ')
		}
		b.WriteString(k.String())
	}
	b.WriteByte(')')
	return b.String()
}

func (n *sx) num() (int64, bool) {
	if n.kids == nil {
		v, err := strconv.ParseInt(n.atom, 10, 64)
		return v, err == nil
	}
	if len(n.kids) == 2 && n.kids[0].atom == "-" {
		if v, ok := n.kids[1].num(); ok {
			return -v, true
		}
	}
	return 0, false
}

func atomSx(s string) *sx { return &sx{atom: s} }

func (c *Ctx) simpSx(n *sx) *sx {
	if n.kids == nil || len(n.kids) == 0 {
		return n
	}
	head := n.kids[0].atom
	if head == "forall" || head == "exists" || head == "let" || head == "!" {
		return n
	}
	for i := 1; i < len(n.kids); i++ {
		n.kids[i] = c.simpSx(n.kids[i])
	}
	switch head {
	case "<=", "<", ">=", ">", "=":
		if len(n.kids) == 3 {
			a, aok := n.kids[1].num()
			b, bok := n.kids[2].num()
			if aok && bok {
				var r bool
				switch head {
				case "<=":
					r = a <= b
				case "<":
					r = a < b
				case ">=":
					r = a >= b
				case ">":
					r = a > b
				case "=":
					r = a == b
				}
				return atomSx(strconv.FormatBool(r))
			}
			if head == "=" {
				if n.kids[1].String() == n.kids[2].String() {
					return atomSx("true")
				}
				for i := 1; i <= 2; i++ {
					if n.kids[i].kids == nil && n.kids[i].atom == "true" {
						return n.kids[3-i]
					}
					if n.kids[i].kids == nil && n.kids[i].atom == "false" {
						return c.simpSx(&sx{kids: []*sx{atomSx("not"), n.kids[3-i]}})
					}
				}
				if bok && b == 0 && c.nonzero[n.kids[1].String()] {
					return atomSx("false")
				}
				if aok && a == 0 && c.nonzero[n.kids[2].String()] {
					return atomSx("false")
				}
			}
		}
	case "+", "-":
		if len(n.kids) == 3 {
			a, aok := n.kids[1].num()
			b, bok := n.kids[2].num()
			if aok && bok {
				v := a + b
				if head == "-" {
					v = a - b
				}
				if v >= 0 {
					return atomSx(strconv.FormatInt(v, 10))
				}
				return &sx{kids: []*sx{atomSx("-"), atomSx(strconv.FormatInt(-v, 10))}}
			}
			if bok && b == 0 {
				return n.kids[1]
			}
			if aok && a == 0 && head == "+" {
				return n.kids[2]
			}
		}
	case "not":
		if len(n.kids) == 2 {
			switch n.kids[1].atom {
			case "true":
				return atomSx("false")
			case "false":
				return atomSx("true")
			}
		}
	case "and", "or":
		unit, zero := "true", "false"
		if head == "or" {
			unit, zero = "false", "true"
		}
		var ks []*sx
		for _, k := range n.kids[1:] {
			if k.kids == nil && k.atom == unit {
				continue
			}
			if k.kids == nil && k.atom == zero {
				return atomSx(zero)
			}
			ks = append(ks, k)
		}
		if len(ks) == 0 {
			return atomSx(unit)
		}
		if len(ks) == 1 {
			return ks[0]
		}
		return &sx{kids: append([]*sx{atomSx(head)}, ks...)}
	case "=>":
		if len(n.kids) == 3 {
			a, b := n.kids[1], n.kids[2]
			if a.kids == nil && a.atom == "true" {
				return b
			}
			if a.kids == nil && a.atom == "false" {
				return atomSx("true")
			}
			if b.kids == nil && b.atom == "true" {
				return atomSx("true")
			}
		}
	case "ite":
		if len(n.kids) == 4 {
			if n.kids[1].kids == nil && n.kids[1].atom == "true" {
				return n.kids[2]
			}
			if n.kids[1].kids == nil && n.kids[1].atom == "false" {
				return n.kids[3]
			}
		}
	case "select":
		if len(n.kids) == 3 && os.Getenv("GOVC_NOFWD") == "" {
			if r := c.forwardSelect(n.kids[1], n.kids[2]); r != nil {
				return r
			}
		}
	case "i.tid", "i.ref":
		if len(n.kids) == 2 {
			k := n.kids[1]
			if k.kids != nil && len(k.kids) == 3 && k.kids[0].atom == "mk-iface" {
				if head == "i.tid" {
					return k.kids[1]
				}
				return k.kids[2]
			}
		}
	case "s.ref", "s.off", "s.len", "s.cap":
		if len(n.kids) == 2 {
			k := n.kids[1]
			idx := map[string]int{"s.ref": 1, "s.off": 2, "s.len": 3, "s.cap": 4}[head]
			if k.kids != nil && len(k.kids) == 5 && k.kids[0].atom == "mk-slice" {
				return k.kids[idx]
			}
			if k.kids == nil {
				if parts, ok := c.sliceParts[k.atom]; ok {
					return c.simpSx(parseSx(parts[idx-1]))
				}
			}
		}
	}
	return n
}

func (c *Ctx) simplify(t string) string {
	if len(t) > 2000000 {
		return t
	}
	return c.simpSx(parseSx(t)).String()
}

// slice component accessors with folding
func (c *Ctx) sPart(which int, s string) string {
	n := parseSx(s)
	if n.kids != nil && len(n.kids) == 5 && n.kids[0].atom == "mk-slice" {
		return c.simpSx(n.kids[which]).String()
	}
	if n.kids == nil {
		if parts, ok := c.sliceParts[n.atom]; ok {
			return parts[which-1]
		}
	}
	return "(" + []string{"", "s.ref", "s.off", "s.len", "s.cap"}[which] + " " + s + ")"
}

func (c *Ctx) sRef(s string) string { return c.sPart(1, s) }
func (c *Ctx) sOff(s string) string { return c.sPart(2, s) }
func (c *Ctx) sLen(s string) string { return c.sPart(3, s) }
func (c *Ctx) sCap(s string) string { return c.sPart(4, s) }

func (c *Ctx) mkSlice(ref, off, ln, cp string) string {
	return "(mk-slice " + c.simplify(ref) + " " + c.simplify(off) + " " + c.simplify(ln) + " " + c.simplify(cp) + ")"
}

// recordSlice remembers the components of a named slice constant.
func (c *Ctx) recordSlice(name, term string) {
	n := parseSx(term)
	if n.kids != nil && len(n.kids) == 5 && n.kids[0].atom == "mk-slice" {
		c.sliceParts[name] = [4]string{n.kids[1].String(), n.kids[2].String(), n.kids[3].String(), n.kids[4].String()}
	}
}

// shiftQuant rewrites a quantified body over Int variable q whose array reads all have the form
// (select A (+ O q)) with A and O free of q into an equivalent body over j = O + q, in which the reads are
// (select A j) and can serve as E-matching patterns (arithmetic inside a pattern does not match reliably).
// It returns the new body and the patterns, or ok=false when the body does not have that shape.
func shiftQuant(body, q, j string) (string, []string, bool) {
	root := parseSx(body)
	var mentions func(n *sx) bool
	mentions = func(n *sx) bool {
		if n.kids == nil {
			return n.atom == q
		}
		for _, k := range n.kids {
			if mentions(k) {
				return true
			}
		}
		return false
	}
	off := ""
	pats := map[string]bool{}
	bare := map[string]bool{}
	ok := true
	var walk func(n *sx) *sx
	walk = func(n *sx) *sx {
		if n.kids == nil {
			return n
		}
		// bottom-up: inner reads are rewritten first, so a read nested in another read's index is no obstacle
		out := &sx{}
		for _, k := range n.kids {
			out.kids = append(out.kids, walk(k))
		}
		n = out
		if len(n.kids) == 3 && n.kids[0].atom == "select" && n.kids[2].kids == nil && n.kids[2].atom == q && !mentions(n.kids[1]) {
			// a read at the bare variable: a pattern as it stands
			bare[n.String()] = true
			return n
		}
		if len(n.kids) == 3 && n.kids[0].atom == "select" && mentions(n.kids[2]) {
			idx := n.kids[2]
			if mentions(n.kids[1]) || idx.kids == nil || len(idx.kids) != 3 || idx.kids[0].atom != "+" || idx.kids[2].atom != q || idx.kids[2].kids != nil || mentions(idx.kids[1]) {
				return n // some other use of the variable: left in terms of q (substituted below)
			}
			o := idx.kids[1].String()
			if off == "" {
				off = o
			} else if off != o {
				// a read at a different offset: it stays in terms of q (rewritten to j - off below) and is no pattern
				return n
			}
			nn := &sx{kids: []*sx{n.kids[0], n.kids[1], atomSx(j)}}
			pats[nn.String()] = true
			return nn
		}
		return n
	}
	nb := walk(root)
	if ok && off == "" && len(bare) > 0 {
		// only reads at the bare variable: keep the body, name the reads as patterns
		var ren func(n *sx) *sx
		ren = func(n *sx) *sx {
			if n.kids == nil {
				if n.atom == q {
					return atomSx(j)
				}
				return n
			}
			out := &sx{}
			for _, k := range n.kids {
				out.kids = append(out.kids, ren(k))
			}
			return out
		}
		var ps []string
		for p := range bare {
			ps = append(ps, ren(parseSx(p)).String())
		}
		sortStrings(ps)
		return ren(nb).String(), ps, true
	}
	if !ok || off == "" {
		return "", nil, false
	}
	// remaining occurrences of q become (- j off)
	var subst func(n *sx) *sx
	subst = func(n *sx) *sx {
		if n.kids == nil {
			if n.atom == q {
				return parseSx("(- " + j + " " + off + ")")
			}
			return n
		}
		out := &sx{}
		for _, k := range n.kids {
			out.kids = append(out.kids, subst(k))
		}
		return out
	}
	var ps []string
	for p := range pats {
		ps = append(ps, p)
	}
	sortStrings(ps)
	return subst(nb).String(), ps, true
}

func sortStrings(a []string) { sort.Strings(a) }

// Store forwarding. Byte buffers are written at constant offsets from one base term (base+k); a read at base+j
// from an array defined (by construction, through named constants) as a chain of such stores is resolved here,
// syntactically, to the value last stored at j or to a read of the oldest array in the chain: the solver is spared
// walking chains of a thousand stores. Only definitional equalities are used, so the rewrite is an equivalence.
type arrLink struct {
	stores [][2]string // (index, value), oldest first
	base   string      // array the stores were applied to
}

func splitIdx(t string) (base string, k int64, ok bool) {
	n := parseSx(t)
	if n.kids == nil {
		if v, isn := n.num(); isn {
			return "", v, true
		}
		return t, 0, true
	}
	if n.kids[0].atom != "+" {
		return t, 0, true
	}
	var bases []string
	var sum int64
	var flat func(m *sx)
	flat = func(m *sx) {
		for _, kd := range m.kids[1:] {
			if v, isn := kd.num(); isn {
				sum += v
			} else if kd.kids != nil && kd.kids[0].atom == "+" {
				flat(kd)
			} else {
				bases = append(bases, kd.String())
			}
		}
	}
	flat(n)
	if len(bases) > 1 {
		return t, 0, true
	}
	if len(bases) == 0 {
		return "", sum, true
	}
	return bases[0], sum, true
}

func (c *Ctx) chainOf(name string) *arrLink {
	if l, ok := c.arrChain[name]; ok {
		return l
	}
	def, ok := c.arrDef[name]
	if !ok {
		return nil
	}
	l := &arrLink{}
	n := parseSx(def)
	var st [][2]string
	for n.kids != nil && len(n.kids) == 4 && n.kids[0].atom == "store" {
		st = append(st, [2]string{n.kids[2].String(), n.kids[3].String()})
		n = n.kids[1]
	}
	for i := len(st) - 1; i >= 0; i-- {
		l.stores = append(l.stores, st[i])
	}
	l.base = n.String()
	c.arrChain[name] = l
	return l
}

func (c *Ctx) forwardSelect(arr, idx *sx) (res *sx) {
	if os.Getenv("GOVC_DEBUGFWD") != "" {
		defer func() {
			r := "nil"
			if res != nil {
				r = res.String()
				if len(r) > 120 {
					r = r[:120]
				}
			}
			as := arr.String()
			if len(as) > 100 {
				as = as[:100]
			}
			fmt.Fprintf(os.Stderr, "FWD %s @ %s => %s\n", as, idx.String(), r)
		}()
	}
	a := arr.String()
	// (select H ref) with H := (store B ref inner): the object's own array
	if arr.kids != nil && len(arr.kids) == 3 && arr.kids[0].atom == "select" && arr.kids[1].kids == nil {
		if d, ok := c.heapDef[arr.kids[1].atom]; ok && d[1] == arr.kids[2].String() {
			a = d[2]
		} else if _, isFrame := c.frameDef[arr.kids[1].atom]; !isFrame {
			return nil
		}
	} else if arr.kids != nil {
		return nil
	}
	jb, jk, _ := splitIdx(idx.String())
	moved := false
	// a heap havocked at a loop head with a stated loop frame: outside the element window of the target it is
	// the heap at loop entry
	if arr.kids != nil && len(arr.kids) == 3 && arr.kids[1].kids == nil {
		h, ref := arr.kids[1].atom, arr.kids[2].String()
		for guard := 0; guard < 8; guard++ {
			fd, ok := c.frameDef[h]
			if !ok {
				break
			}
			outside := false
			for _, t := range fd.targets {
				if (t.heap == fd.heap || t.heap == "*") && t.ref == ref && t.lo != "" {
					lb, lk, _ := splitIdx(t.lo)
					hb, hk, _ := splitIdx(t.hi)
					if lb == jb && hb == jb && (jk < lk || jk >= hk) {
						outside = true
					}
				}
			}
			if !outside {
				break
			}
			h = fd.old
			moved = true
		}
		if moved {
			if d, ok := c.heapDef[h]; ok && d[1] == ref {
				a = d[2]
			} else if hn := parseSx(h); hn.kids != nil && len(hn.kids) == 4 && hn.kids[0].atom == "store" && hn.kids[2].String() == ref {
				a = hn.kids[3].String()
			} else {
				return &sx{kids: []*sx{atomSx("select"), &sx{kids: []*sx{atomSx("select"), atomSx(h), arr.kids[2]}}, idx}}
			}
		}
	}
	for steps := 0; steps < 4000; steps++ {
		l := c.chainOf(a)
		if l == nil {
			break
		}
		hit := ""
		undecided := false
		for i := len(l.stores) - 1; i >= 0; i-- {
			ib, ik, _ := splitIdx(l.stores[i][0])
			if ib != jb {
				undecided = true
				break
			}
			if ik == jk {
				hit = l.stores[i][1]
				break
			}
		}
		if undecided {
			break
		}
		if hit != "" {
			return parseSx(hit)
		}
		a = l.base
		moved = true
		// the base may itself be (select H ref) of an older heap
		if strings.HasPrefix(a, "(select ") {
			bn := parseSx(a)
			if len(bn.kids) == 3 && bn.kids[1].kids == nil {
				if d, ok := c.heapDef[bn.kids[1].atom]; ok && d[1] == bn.kids[2].String() {
					a = d[2]
					continue
				}
			}
			break
		}
	}
	if !moved {
		return nil
	}
	return &sx{kids: []*sx{atomSx("select"), parseSx(a), idx}}
}
