package main

import (
	"fmt"
	"go/types"
	"sort"
	"strings"

	"golang.org/x/tools/go/ssa"
)

// FuncResult is what verifying one function under contract produced.
type FuncResult struct {
	Key      string
	Ctx      *Ctx
	Obls     []*Obligation
	Inlined  []string
	Havocked []string
	Stubs    []string
	Notes    []string
	Err      string
	Requires string // conjunction of the preconditions (for the satisfiability guard)
	ReachRet string
	PrePos   int
}

func sortedSet(m map[string]bool) []string {
	var out []string
	for k := range m {
		out = append(out, k)
	}
	sort.Strings(out)
	return out
}

func (P *Program) allPackages() []*packagesPackage { return P.flat }

// verifyFunction generates all obligations of one function under contract.
func verifyFunction(P *Program, S *Specs, key string) (res *FuncResult) {
	res = &FuncResult{Key: key}
	defer func() {
		if r := recover(); r != nil {
			if se, ok := r.(specError); ok {
				res.Err = "contract error: " + se.msg
				return
			}
			res.Err = fmt.Sprintf("engine error: %v", r)
			if debugPanics {
				panic(r)
			}
		}
	}()
	fn := P.lookupFunc(key)
	if fn == nil {
		res.Err = "function under contract not found: " + key
		return
	}
	ct := S.Contracts[key]
	if ct == nil {
		res.Err = "no contract for " + key
		return
	}
	if len(fn.Blocks) == 0 {
		res.Err = "function has no body: " + key
		return
	}
	modsets := map[string]map[string]bool{}
	hs, _ := loopHeaders(fn)
	needDiscover := len(hs) > 0 || true
	var last *Exec
	heapRegs := map[string]func(*Ctx){}
	modsetSize := func() int {
		n := 0
		for _, m := range modsets {
			n += len(m)
		}
		return n
	}
	lastSize := -1
	for pass := 0; pass < 8; pass++ {
		// discovery passes are repeated until the loop modsets are stable (a heap array first touched inside a
		// nested or inlined loop only shows up in the enclosing loops' modsets on the next pass)
		discover := true
		if pass > 0 && modsetSize() == lastSize {
			discover = false
		}
		if pass == 7 {
			discover = false
		}
		lastSize = modsetSize()
		if discover && !needDiscover {
			continue
		}
		c := newCtx(P)
		c.curFunc = key
		c.discard = discover
		c.sweepFilter = ct.SweepKinds
		x := &Exec{c: c, P: P, S: S, modsets: modsets, discover: discover, maxDepth: 5,
			inlined: map[string]bool{}, havocked: map[string]bool{}, usedStub: map[string]bool{}, fnAt: map[string]*FnVal{}, heapRegs: heapRegs}
		if ct.Flags["depth"] != "" {
			fmt.Sscanf(ct.Flags["depth"], "%d", &x.maxDepth)
		}
		x.nowrap = ct.Flags["nowrap"] != ""
		st := c.newState()
		w0 := st.wm()
		c.assert("(> " + w0 + " 1)")
		f := &Frame{x: x, fn: fn, prefix: shortName(key), env: map[ssa.Value]SV{}, contract: ct, isRoot: true, stack: []string{key}, debugAll: map[string][]ssa.Value{}}
		x.root = f
		x.rootW0 = w0
		var args []SV
		for _, p := range fn.Params {
			v := f.havocValue(f.prefix+"/"+p.Name(), p.Type(), st, "true")
			args = append(args, v)
		}
		for _, fv := range fn.FreeVars {
			v := f.havocValue(f.prefix+"/free:"+fv.Name(), fv.Type(), st, "true")
			if _, ok := fv.Type().Underlying().(*types.Pointer); ok && v.T != "" {
				c.assert("(> " + v.T + " 0)") // a captured variable's cell always exists
				c.nonzero[v.T] = true
			}
			f.env[fv] = v
		}
		if fn.Synthetic == "package initializer" && fn.Pkg != nil {
			// the runtime runs a package initializer exactly once, before anything else of the package: its guard is unset
			if g, ok := fn.Pkg.Members["init$guard"].(*ssa.Global); ok {
				t := g.Type().(*types.Pointer).Elem()
				h := c.globalHeap(fn.Pkg.Pkg.Path(), g.Name(), t)
				c.assert("(not (select " + st.get(h) + " 1))")
				c.note("package initializer verified from its first (only) run: init$guard is false on entry")
			}
		}
		st.heap[c.ghostVar("$alloc", "Int")] = "0"
		for gname, srt := range S.GhostVars {
			_ = c.ghostVar(gname, x.resolveSort(srt))
		}
		for i, p := range fn.Params {
			f.env[p] = args[i]
		}
		x.rootOld = st.clone()
		f.params = map[string]SV{}
		f.paramSorts = map[string]string{}
		for _, gp := range ct.GhostParams {
			f.params[gp[0]] = tv(c.declConst(f.prefix+"/ghost:"+gp[0], gp[1]))
			f.paramSorts[gp[0]] = gp[1]
		}
		// axioms
		for _, ax := range S.Axioms {
			if !axiomRelevant(ax, ct) {
				continue
			}
			env := f.specEnv(st, st, nil)
			ex, err := parseExpr(ax.Text)
			if err != nil {
				panic(specError{ax.Src + ": " + err.Error()})
			}
			c.assert(env.evalBool(ex))
			x.usedStub["axiom:"+ax.Name] = true
		}
		var reqs []string
		for _, r := range ct.Requires {
			env := f.specEnv(st, st, nil)
			t := env.boolClause(r)
			c.assert(t)
			reqs = append(reqs, t)
		}
		res.PrePos = len(c.asserts)
		res.Requires = and(reqs...)
		_, _, reach := f.run(args, st, "true")
		res.ReachRet = reach
		if !discover {
			for _, r := range f.rets {
				if len(ct.GhostSets) > 0 {
					env := f.specEnv(r.st, x.rootOld, nil)
					env.withResults(fn.Signature, r.vals)
					env.ghostSets(ct, r.st, "true")
				}
				// ghost frame: a ghost variable not listed under `modifies` (or assigned by ghostset) must be unchanged
				mods := map[string]bool{}
				for _, gname := range strings.Fields(strings.ReplaceAll(ct.Flags["modifies"], ",", " ")) {
					mods[gname] = true
				}
				for _, gs := range ct.GhostSets {
					if i := strings.Index(gs.Text, "="); i > 0 {
						mods[strings.TrimSpace(gs.Text[:i])] = true
					}
				}
				var gnames []string
				for gname := range S.GhostVars {
					gnames = append(gnames, gname)
				}
				sort.Strings(gnames)
				for _, gname := range gnames {
					if mods[gname] || mods["*"] || S.GhostUntracked[gname] {
						continue
					}
					h := c.ghostVar(gname, x.resolveSort(S.GhostVars[gname]))
					if cur, old := r.st.get(h), x.rootOld.get(h); cur != old {
						goal := eq(cur, old)
						if S.GhostByRef[gname] {
							sk := c.freshConst("sk_ref", "Int")
							goal = fmt.Sprintf("(=> (< %s %s) (= (select %s %s) (select %s %s)))", sk, x.rootW0, cur, sk, old, sk)
						}
						c.oblige("ghostframe", nil, r.guard, goal, ct.Src, "ghost variable "+gname+" is changed but not listed under modifies")
					}
				}
				c.finalObl = true
				for _, en := range ct.Ensures {
					if hasTag(en.Tags, "assume") {
						// a clause the contract only assumes (an abstraction of the function used by its callers)
						c.note("assumption: clause of %s taken without proof: %s", key, en.Text)
						continue
					}
					env := f.specEnv(r.st, x.rootOld, nil)
					env.withResults(fn.Signature, r.vals)
					env.prove = true
					c.oblige("ensures", en.Tags, r.guard, env.boolClause(en), en.Src, en.Text)
				}
				// cover: this return must be reachable under everything assumed so far (anti-vacuity, thorough tier)
				c.oblige("cover", []string{"cover"}, r.guard, "false", ct.Src, "reachability of a return of "+key)
				if a := ct.Flags["alloc"]; a != "" {
					env := f.specEnv(r.st, x.rootOld, nil)
					env.withResults(fn.Signature, r.vals)
					ex, err := parseExpr(a)
					if err != nil {
						panic(specError{ct.Src + ": " + err.Error()})
					}
					bound := env.eval(ex)
					c.oblige("alloc", ct.Sweep, r.guard, fmt.Sprintf("(<= %s %s)", r.st.get(c.ghostVar("$alloc", "Int")), bound.T), ct.Src, "allocation budget: alloc <= "+a)
				}
			}
		}
		if discover {
			for k, r := range c.heapReg {
				heapRegs[k] = r
			}
		}
		last = x
		if !discover {
			break
		}
	}
	c := last.c
	res.Ctx = c
	res.Obls = c.obls
	res.Inlined = sortedSet(last.inlined)
	res.Havocked = sortedSet(last.havocked)
	res.Stubs = sortedSet(last.usedStub)
	res.Notes = sortedSet(c.notes)
	return
}

var debugPanics = false

func axiomRelevant(ax *Axiom, ct *Contract) bool {
	use := ct.Flags["axioms"]
	if use == "" {
		return false
	}
	for _, n := range strings.Fields(strings.ReplaceAll(use, ",", " ")) {
		if n == ax.Name || n == "all" {
			return true
		}
	}
	return false
}

func shortName(key string) string {
	k := strings.TrimPrefix(key, modPath+"/")
	return k
}

var _ = types.Typ
