package main

import (
	"fmt"
	"go/constant"
	"go/types"
	"strings"

	"golang.org/x/tools/go/ssa"
)

// Go-coded models of a few ubiquitous library functions. Everything else external is described
// by assumed contracts in /verif/stubs/*.spec or havocked.

type intrinsic func(f *Frame, in ssa.Instruction, args []SV, cc *ssa.CallCommon, st *State, g string) (SV, bool)

var intrinsics map[string]intrinsic

func init() {
	intrinsics = map[string]intrinsic{
		"fmt.Errorf":   freshError,
		"fmt.Sprintf":  sprintf,
		"encoding/binary.Read":  binaryRead,
		"encoding/binary.Write": binaryWrite,
		"errors.New":   freshError,
		"bytes.Equal":  bytesEqual,
		"google.golang.org/protobuf/proto.Unmarshal": protoUnmarshal,
		"google.golang.org/protobuf/proto.Clone":     protoClone,
		"google.golang.org/protobuf/proto.Marshal":   protoMarshal,
		"crypto/sha512.Sum384": hashFn("sha384", 48),
		"crypto/sha256.Sum256": hashFn("sha256", 32),
		"crypto/sha512.Sum512": hashFn("sha512", 64),
	}
	for _, e := range []struct {
		name string
		big  bool
	}{{"littleEndian", false}, {"bigEndian", true}} {
		for _, n := range []int{2, 4, 8} {
			bits := n * 8
			intrinsics[fmt.Sprintf("encoding/binary.%s.Uint%d", e.name, bits)] = endianGet(n, e.big)
			intrinsics[fmt.Sprintf("encoding/binary.%s.PutUint%d", e.name, bits)] = endianPut(n, e.big)
		}
	}
}

func freshError(f *Frame, in ssa.Instruction, args []SV, cc *ssa.CallCommon, st *State, g string) (SV, bool) {
	c := f.c()
	r := st.alloc()
	id := c.typeID(types.NewPointer(types.Universe.Lookup("error").Type())) // a private dynamic type id for library errors
	return tv(fmt.Sprintf("(mk-iface %d %s)", id, r)), true
}

// bval returns the abstract content value of a slice.
func (c *Ctx) bval(st *State, s string, elem types.Type, g string) string {
	arr := sel(st.get(c.elemHeap(elem)), "(s.ref "+s+")")
	v := app("bv.of", arr, "(s.off "+s+")", "(s.len "+s+")")
	c.assume(g, fmt.Sprintf("(= (bv.len %s) (s.len %s))", v, s))
	return v
}

func bytesEqual(f *Frame, in ssa.Instruction, args []SV, cc *ssa.CallCommon, st *State, g string) (SV, bool) {
	c := f.c()
	elem := types.Typ[types.Uint8]
	a, b := c.bval(st, args[0].T, elem, g), c.bval(st, args[1].T, elem, g)
	r := c.freshConst("byteseq", "Bool")
	c.assert(eq(r, eq(a, b)))
	// equal contents have equal lengths; both empty are equal; single-element witness for small literal lengths
	c.assume(g, implies(r, fmt.Sprintf("(= (s.len %s) (s.len %s))", args[0].T, args[1].T)))
	c.assume(g, implies(fmt.Sprintf("(and (= (s.len %s) 0) (= (s.len %s) 0))", args[0].T, args[1].T), r))
	c.assume(g, implies(fmt.Sprintf("(not (= (s.len %s) (s.len %s)))", args[0].T, args[1].T), not(r)))
	return tv(r), true
}

func hashFn(name string, n int) intrinsic {
	return func(f *Frame, in ssa.Instruction, args []SV, cc *ssa.CallCommon, st *State, g string) (SV, bool) {
		c := f.c()
		fn := c.declFun("hash:"+name, []string{"BV"}, "(Array Int Int)")
		v := c.bval(st, args[0].T, types.Typ[types.Uint8], g)
		r := app(fn, v)
		nm := c.freshConst(name, "(Array Int Int)")
		c.assert(eq(nm, r))
		return tv(nm), true
	}
}

func endianGet(n int, big bool) intrinsic {
	return func(f *Frame, in ssa.Instruction, args []SV, cc *ssa.CallCommon, st *State, g string) (SV, bool) {
		c := f.c()
		b := args[len(args)-1].T
		c.oblige("index", f.sweepTags(), g, fmt.Sprintf("(>= %s %d)", c.sLen(b), n), f.where(in), fmt.Sprintf("binary.ByteOrder.Uint%d needs %d bytes", n*8, n))
		arr := sel(st.get(c.elemHeap(types.Typ[types.Uint8])), c.sRef(b))
		var parts []string
		for k := 0; k < n; k++ {
			sh := k
			if big {
				sh = n - 1 - k
			}
			bt := sel(arr, c.simplify(fmt.Sprintf("(+ %s %d)", c.sOff(b), k)))
			c.assume(g, fmt.Sprintf("(and (<= 0 %s) (<= %s 255))", bt, bt))
			if sh == 0 {
				parts = append(parts, bt)
			} else {
				parts = append(parts, fmt.Sprintf("(* %s %s)", pow2s(8*sh), bt))
			}
		}
		name := c.freshConst(fmt.Sprintf("u%d", n*8), "Int")
		c.assert(eq(name, "(+ "+strings.Join(parts, " ")+")"))
		return tv(name), true
	}
}

func endianPut(n int, big bool) intrinsic {
	return func(f *Frame, in ssa.Instruction, args []SV, cc *ssa.CallCommon, st *State, g string) (SV, bool) {
		c := f.c()
		f.x.syncViews(st)
		b, v := args[len(args)-2].T, args[len(args)-1].T
		c.oblige("index", f.sweepTags(), g, fmt.Sprintf("(>= %s %d)", c.sLen(b), n), f.where(in), fmt.Sprintf("binary.ByteOrder.PutUint%d needs %d bytes", n*8, n))
		eh := c.elemHeap(types.Typ[types.Uint8])
		f.x.frameCheck(st, eh, c.sRef(b), g, f.where(in), c.sOff(b), c.simplify(fmt.Sprintf("(+ %s %d)", c.sOff(b), n)))
		arr := sel(st.get(eh), c.sRef(b))
		// the bytes of v are fresh constants tied to v by the (unique) base-256 decomposition, which keeps the
		// goal linear; they are also given in div/mod form for callers that need a particular byte.
		var sum []string
		for k := 0; k < n; k++ {
			sh := k
			if big {
				sh = n - 1 - k
			}
			bt := c.freshConst("byte", "Int")
			c.assert(fmt.Sprintf("(and (<= 0 %s) (<= %s 255))", bt, bt))
			dm := fmt.Sprintf("(mod (div %s %s) 256)", v, pow2s(8*sh))
			if sh == 0 {
				dm = fmt.Sprintf("(mod %s 256)", v)
			}
			c.assert(eq(bt, dm))
			sum = append(sum, fmt.Sprintf("(* %s %s)", pow2s(8*sh), bt))
			arr = sto(arr, c.simplify(fmt.Sprintf("(+ %s %d)", c.sOff(b), k)), bt)
		}
		c.assert(fmt.Sprintf("(=> (and (<= 0 %s) (< %s %s)) (= %s (+ %s)))", v, v, pow2s(8*n), v, strings.Join(sum, " ")))
		st.set(eh, sto(st.get(eh), c.sRef(b), arr))
		f.x.syncViews(st)
		return SV{}, true
	}
}

// protoUnmarshal: the target message's fields become the (uninterpreted, deterministic) decoding of the
// input bytes; nested messages, maps and repeated fields are arbitrary well-typed values.
func protoUnmarshal(f *Frame, in ssa.Instruction, args []SV, cc *ssa.CallCommon, st *State, g string) (SV, bool) {
	c := f.c()
	m := args[1]
	if m.Dyn == nil || m.DynV == nil || m.DynV.T == "" {
		return SV{}, false
	}
	pt, ok := m.Dyn.Underlying().(*types.Pointer)
	if !ok {
		return SV{}, false
	}
	s, ok := pt.Elem().Underlying().(*types.Struct)
	if !ok {
		return SV{}, false
	}
	f.x.syncViews(st)
	f.x.usedStub["model: proto.Unmarshal fills the message with a deterministic function of the input bytes (scalar and bytes fields) and arbitrary well-typed nested values; may fail"] = true
	ref := m.DynV.T
	where := f.where(in)
	c.oblige("nil", f.sweepTags(), g, "(not (= "+ref+" 0))", where, "proto.Unmarshal into nil message")
	input := c.bval(st, args[0].T, types.Typ[types.Uint8], g)
	res := freshErrorOrNil(f, in, st, g)
	okc := "(= (i.tid " + res.T + ") 0)"
	st.bumpWM()
	// ghost: remember which bytes a message object was decoded from
	src := c.ghostVar("pbsrc", "(Array Int BV)")
	okg := c.ghostVar("pbok", "(Array Int Bool)")
	st.set(src, sto(st.get(src), ref, input))
	st.set(okg, sto(st.get(okg), ref, okc))
	for k := 0; k < s.NumFields(); k++ {
		fld := s.Field(k)
		h := c.fieldHeap(pt.Elem(), k)
		f.x.frameCheck(st, h, ref, g, where)
		nv := c.freshConst("pbv", c.sortOf(fld.Type()))
		c.assume(g, c.wf(fld.Type(), nv, st.wm()))
		st.set(h, sto(st.get(h), ref, nv))
		if !fld.Exported() {
			continue
		}
		fn, srt := f.x.pbFieldFn(pt.Elem(), k)
		switch fld.Type().Underlying().(type) {
		case *types.Basic:
			c.assume(g, implies(okc, eq(nv, app(fn, input))))
		case *types.Slice:
			if srt == "BV" {
				arr := sel(st.get(c.elemHeap(types.Typ[types.Uint8])), "(s.ref "+nv+")")
				v := app("bv.of", arr, "(s.off "+nv+")", "(s.len "+nv+")")
				c.assume(g, implies(okc, eq(v, app(fn, input))))
				c.assume(g, fmt.Sprintf("(= (bv.len %s) (s.len %s))", v, nv))
			}
		}
	}
	return res, true
}

func freshErrorOrNil(f *Frame, in ssa.Instruction, st *State, g string) SV {
	c := f.c()
	e := c.freshConst("err", "Iface")
	c.assume(g, c.wf(types.Universe.Lookup("error").Type(), e, st.wm()))
	return tv(e)
}

// protoClone: deep copy (to depth 3) of a message whose dynamic type is known: the result is freshly
// allocated, scalar fields are equal, bytes fields have equal content, repeated bytes fields have equal
// length and element-wise equal content, nested messages are cloned recursively.
func protoClone(f *Frame, in ssa.Instruction, args []SV, cc *ssa.CallCommon, st *State, g string) (SV, bool) {
	c := f.c()
	m := args[0]
	if m.Dyn == nil || m.DynV == nil || m.DynV.T == "" {
		return SV{}, false
	}
	pt, ok := m.Dyn.Underlying().(*types.Pointer)
	if !ok {
		return SV{}, false
	}
	if _, ok := pt.Elem().Underlying().(*types.Struct); !ok {
		return SV{}, false
	}
	f.x.syncViews(st)
	f.x.usedStub["model: proto.Clone returns a fresh deep copy (scalars equal, bytes content equal, nested messages cloned to depth 3)"] = true
	nr := f.cloneMsg(pt.Elem(), m.DynV.T, st, g, 3)
	res := ite("(= "+m.DynV.T+" 0)", "0", nr)
	rv := tv(res)
	return SV{T: fmt.Sprintf("(mk-iface %d %s)", c.typeID(m.Dyn), res), Dyn: m.Dyn, DynV: &rv}, true
}

func (f *Frame) cloneBytes(src string, st *State, g string) string {
	c := f.c()
	elem := types.Typ[types.Uint8]
	eh := c.elemHeap(elem)
	r := st.alloc()
	ln := "(s.len " + src + ")"
	na := f.copyRange(c.zero(types.NewArray(elem, 0)), "0", sel(st.get(eh), "(s.ref "+src+")"), "(s.off "+src+")", ln, "Int", g)
	st.set(eh, sto(st.get(eh), r, na))
	ns := c.freshConst("clone", "Slice")
	c.assert(eq(ns, ite("(= (s.ref "+src+") 0)", "(mk-slice 0 0 0 0)", "(mk-slice "+r+" 0 "+ln+" "+ln+")")))
	c.assume(g, eq(app("bv.of", sel(st.get(eh), "(s.ref "+ns+")"), "(s.off "+ns+")", "(s.len "+ns+")"),
		app("bv.of", sel(st.get(eh), "(s.ref "+src+")"), "(s.off "+src+")", "(s.len "+src+")")))
	return ns
}

func isBytes(t types.Type) bool {
	sl, ok := t.Underlying().(*types.Slice)
	if !ok {
		return false
	}
	b, ok := sl.Elem().Underlying().(*types.Basic)
	return ok && b.Kind() == types.Uint8
}

func (f *Frame) cloneMsg(t types.Type, src string, st *State, g string, depth int) string {
	c := f.c()
	s := t.Underlying().(*types.Struct)
	w0 := st.wm()
	nr := st.alloc()
	for k := 0; k < s.NumFields(); k++ {
		fld := s.Field(k)
		h := c.fieldHeap(t, k)
		cur := sel(st.get(h), src)
		var nv string
		switch u := fld.Type().Underlying().(type) {
		case *types.Basic:
			nv = cur
		case *types.Slice:
			if isBytes(fld.Type()) {
				nv = f.cloneBytes(cur, st, g)
			} else if isBytes(u.Elem()) {
				// [][]byte: fresh outer array, element-wise equal content
				eh := c.elemHeap(u.Elem())
				bh := c.elemHeap(types.Typ[types.Uint8])
				r := st.alloc()
				outer := c.freshConst("cloneouter", "(Array Int Slice)")
				c.quant = true
				ln := "(s.len " + cur + ")"
				srcOuter := sel(st.get(eh), "(s.ref "+cur+")")
				c.assume(g, fmt.Sprintf("(forall ((i! Int)) (! (=> (and (<= 0 i!) (< i! %[1]s)) (and (= (s.len (select %[2]s i!)) (s.len (select %[3]s (+ (s.off %[4]s) i!)))) (>= (s.ref (select %[2]s i!)) 0) (< (s.ref (select %[2]s i!)) %[7]s) (or (= (s.ref (select %[2]s i!)) 0) (>= (s.ref (select %[2]s i!)) %[6]s)) (= (bv.of (select %[5]s (s.ref (select %[2]s i!))) (s.off (select %[2]s i!)) (s.len (select %[2]s i!))) (bv.of (select %[5]s (s.ref (select %[3]s (+ (s.off %[4]s) i!)))) (s.off (select %[3]s (+ (s.off %[4]s) i!))) (s.len (select %[3]s (+ (s.off %[4]s) i!))))))) :pattern ((select %[2]s i!))))",
					ln, outer, srcOuter, cur, st.get(bh), w0, "WMAFTER"))
				st.set(eh, sto(st.get(eh), r, outer))
				st.bumpWM()
				// patch the watermark placeholder now that the inner allocations are accounted for
				last := len(c.asserts) - 1
				for i := last; i >= 0 && i > last-6; i-- {
					if strings.Contains(c.asserts[i], "WMAFTER") {
						c.asserts[i] = strings.ReplaceAll(c.asserts[i], "WMAFTER", st.wm())
					}
				}
				nv = ite("(= (s.ref "+cur+") 0)", "(mk-slice 0 0 0 0)", "(mk-slice "+r+" 0 "+ln+" "+ln+")")
			} else {
				fv := c.freshConst("clonefld", c.sortOf(fld.Type()))
				st.bumpWM()
				c.assume(g, c.wf(fld.Type(), fv, st.wm()))
				c.assume(g, fmt.Sprintf("(= (s.len %s) (s.len %s))", fv, cur))
				nv = fv
			}
		case *types.Pointer:
			if _, ok := u.Elem().Underlying().(*types.Struct); ok && depth > 0 && fld.Exported() {
				inner := f.cloneMsg(u.Elem(), cur, st, g, depth-1)
				nv = ite("(= "+cur+" 0)", "0", inner)
			} else {
				nv = "0"
			}
		case *types.Map:
			has, val, ln := c.mapHeaps(u)
			r := st.alloc()
			st.set(has, sto(st.get(has), r, sel(st.get(has), cur)))
			st.set(ln, sto(st.get(ln), r, sel(st.get(ln), cur)))
			if isBytes(u.Elem()) {
				bh := c.elemHeap(types.Typ[types.Uint8])
				mv := c.freshConst("clonemap", "(Array "+c.sortOf(u.Key())+" Slice)")
				c.quant = true
				st.bumpWM()
				srcm := sel(st.get(val), cur)
				c.assume(g, fmt.Sprintf("(forall ((k! %[1]s)) (! (and (= (s.len (select %[2]s k!)) (s.len (select %[3]s k!))) (>= (s.ref (select %[2]s k!)) 0) (< (s.ref (select %[2]s k!)) %[6]s) (or (= (s.ref (select %[2]s k!)) 0) (>= (s.ref (select %[2]s k!)) %[5]s)) (= (bv.of (select %[4]s (s.ref (select %[2]s k!))) (s.off (select %[2]s k!)) (s.len (select %[2]s k!))) (bv.of (select %[4]s (s.ref (select %[3]s k!))) (s.off (select %[3]s k!)) (s.len (select %[3]s k!))))) :pattern ((select %[2]s k!))))",
					c.sortOf(u.Key()), mv, srcm, st.get(bh), w0, st.wm()))
				st.set(val, sto(st.get(val), r, mv))
			} else {
				st.set(val, sto(st.get(val), r, sel(st.get(val), cur)))
			}
			nv = ite("(= "+cur+" 0)", "0", r)
		default:
			nv = c.zero(fld.Type())
		}
		st.set(h, sto(st.get(h), nr, nv))
	}
	return nr
}

// protoMarshal: the output bytes decode back (pb field functions) to the message's current scalar and
// bytes fields: Unmarshal(Marshal(m)) == m on those fields. May fail; reads only.
func protoMarshal(f *Frame, in ssa.Instruction, args []SV, cc *ssa.CallCommon, st *State, g string) (SV, bool) {
	c := f.c()
	m := args[0]
	if m.Dyn == nil || m.DynV == nil || m.DynV.T == "" {
		return SV{}, false
	}
	pt, ok := m.Dyn.Underlying().(*types.Pointer)
	if !ok {
		return SV{}, false
	}
	s, ok := pt.Elem().Underlying().(*types.Struct)
	if !ok {
		return SV{}, false
	}
	f.x.syncViews(st)
	f.x.usedStub["model: proto.Marshal output decodes back to the message's scalar and bytes fields (Unmarshal∘Marshal = id on them); deterministic encoding is NOT assumed"] = true
	ref := m.DynV.T
	st.bumpWM()
	out := f.havocValue("marshal", types.NewSlice(types.Typ[types.Uint8]), st, g)
	res := freshErrorOrNil(f, in, st, g)
	okc := and("(= (i.tid "+res.T+") 0)", "(not (= "+ref+" 0))")
	bv := c.bval(st, out.T, types.Typ[types.Uint8], g)
	c.assume(g, implies(okc, "(>= (s.ref "+out.T+") "+f.x.rootW0+")")) // freshly allocated output
	for k := 0; k < s.NumFields(); k++ {
		fld := s.Field(k)
		if !fld.Exported() {
			continue
		}
		fn, srt := f.x.pbFieldFn(pt.Elem(), k)
		cur := sel(st.get(c.fieldHeap(pt.Elem(), k)), ref)
		switch fld.Type().Underlying().(type) {
		case *types.Basic:
			c.assume(g, implies(okc, eq(app(fn, bv), cur)))
		case *types.Slice:
			if srt == "BV" {
				c.assume(g, implies(okc, eq(app(fn, bv), c.bval(st, cur, types.Typ[types.Uint8], g))))
			}
		}
	}
	// ghost: which message object these bytes were produced from
	ms := c.ghostVar("marshalOf", "(Array Int BV)")
	st.set(ms, ite(okc, sto(st.get(ms), ref, bv), st.get(ms)))
	return SV{Tup: []SV{out, res}}, true
}

// sprintf: for a constant format made of literal text and %s / %d / %v verbs whose arguments are strings
// (or non-negative-or-any integers, rendered by an injective uninterpreted function) the result is the
// concatenation; otherwise an unconstrained string.
func sprintf(f *Frame, in ssa.Instruction, args []SV, cc *ssa.CallCommon, st *State, g string) (SV, bool) {
	c := f.c()
	c.useStrings = true
	fresh := func() (SV, bool) { return tv(c.freshConst("sprintf", "String")), true }
	k, ok := cc.Args[0].(*ssa.Const)
	if !ok || k.Value == nil {
		return fresh()
	}
	format := constantString(k)
	// locate the varargs elements
	var elems map[string]SV
	vs := args[1].T
	for _, v := range st.views {
		if strings.Contains(vs, v.ref+" ") || strings.HasSuffix(vs, v.ref) || c.sRef(vs) == v.ref {
			elems = f.x.varargs[v.src.Ref]
		}
	}
	var parts []string
	argi := 0
	lit := ""
	for i := 0; i < len(format); i++ {
		if format[i] != '%' {
			lit += string(format[i])
			continue
		}
		if i+1 >= len(format) {
			return fresh()
		}
		verb := format[i+1]
		i++
		if verb == '%' {
			lit += "%"
			continue
		}
		if verb != 's' && verb != 'd' && verb != 'v' {
			return fresh()
		}
		if lit != "" {
			parts = append(parts, strLit(lit))
			lit = ""
		}
		if elems == nil {
			return fresh()
		}
		ev, ok := elems[num(int64(argi))]
		argi++
		if !ok || ev.DynV == nil || ev.Dyn == nil || ev.DynV.T == "" {
			return fresh()
		}
		if b, isB := ev.Dyn.Underlying().(*types.Basic); isB && b.Info()&types.IsString != 0 {
			parts = append(parts, ev.DynV.T)
		} else if isB && b.Info()&types.IsInteger != 0 && verb != 's' {
			fn := c.declFun("itoa", []string{"Int"}, "String")
			parts = append(parts, app(fn, ev.DynV.T))
			c.note("model: integers formatted by fmt.Sprintf are rendered by an uninterpreted function itoa")
		} else {
			return fresh()
		}
	}
	if lit != "" {
		parts = append(parts, strLit(lit))
	}
	switch len(parts) {
	case 0:
		return tv("\"\""), true
	case 1:
		return tv(parts[0]), true
	}
	nm := c.freshConst("sprintf", "String")
	c.assert(eq(nm, "(str.++ "+strings.Join(parts, " ")+")"))
	return tv(nm), true
}

func constantString(k *ssa.Const) string {
	if k.Value == nil {
		return ""
	}
	return constant.StringVal(k.Value)
}

// binaryRead models encoding/binary.Read(r, order, data) for data = pointer to a fixed-size integer or byte
// array: it consumes up to size bytes from the reader model (exactly size on success) and stores an
// arbitrary well-typed value.
func binaryRead(f *Frame, in ssa.Instruction, args []SV, cc *ssa.CallCommon, st *State, g string) (SV, bool) {
	c := f.c()
	d := args[2]
	if d.Dyn == nil || d.DynV == nil {
		return SV{}, false
	}
	pt, ok := d.Dyn.Underlying().(*types.Pointer)
	if !ok {
		return SV{}, false
	}
	size := types.SizesFor("gc", "amd64").Sizeof(pt.Elem())
	switch u := pt.Elem().Underlying().(type) {
	case *types.Basic:
		if _, _, isInt := intInfo(pt.Elem()); !isInt {
			return SV{}, false
		}
	case *types.Array:
		if _, _, isInt := intInfo(u.Elem()); !isInt {
			return SV{}, false
		}
	default:
		return SV{}, false
	}
	f.x.syncViews(st)
	f.x.usedStub["model: encoding/binary.Read consumes exactly sizeof(*data) bytes on success (fewer on error) and stores an arbitrary value"] = true
	rd := c.ghostVar("rdLeft", "(Array Int Int)")
	rref := "(i.ref " + args[0].T + ")"
	left := sel(st.get(rd), rref)
	n := c.freshConst("brn", "Int")
	res := freshErrorOrNil(f, in, st, g)
	okc := "(= (i.tid " + res.T + ") 0)"
	c.assume(g, fmt.Sprintf("(and (<= 0 %s) (<= %s %d) (<= %s %s) (= %s (= %s %d)))", n, n, size, n, left, okc, n, size))
	st.set(rd, sto(st.get(rd), rref, "(- "+left+" "+n+")"))
	nv := c.freshConst("brv", c.sortOf(pt.Elem()))
	c.assume(g, c.wf(pt.Elem(), nv, st.wm()))
	f.store(st, *d.DynV, pt.Elem(), nv, g, f.where(in))
	f.x.syncViews(st)
	return res, true
}

// binaryWrite models encoding/binary.Write(w, order, v) for a fixed-size integer v and a known byte order: on
// success exactly sizeof(v) bytes, the encoding of v, are appended to the writer's ghost log
// (wrLog[w][wrLen[w]..]) and wrLen[w] grows by that size; a *bytes.Buffer never fails; any other writer may fail,
// after which its log is unknown beyond what it held before.
func binaryWrite(f *Frame, in ssa.Instruction, args []SV, cc *ssa.CallCommon, st *State, g string) (SV, bool) {
	c := f.c()
	w, order, d := args[0], args[1], args[2]
	if d.Dyn == nil || d.DynV == nil || d.DynV.T == "" || order.Dyn == nil {
		return SV{}, false
	}
	bitsN, _, isInt := intInfo(d.Dyn)
	if !isInt || bitsN%8 != 0 {
		return SV{}, false
	}
	big := false
	switch on := order.Dyn.String(); {
	case strings.HasSuffix(on, "binary.littleEndian"):
	case strings.HasSuffix(on, "binary.bigEndian"):
		big = true
	default:
		return SV{}, false
	}
	n := bitsN / 8
	f.x.syncViews(st)
	f.x.usedStub["model: encoding/binary.Write of a fixed-size integer appends exactly its encoding to the writer's log on success"] = true
	v := d.DynV.T
	if _, signed, _ := intInfo(d.Dyn); signed {
		v = fmt.Sprintf("(ite (< %s 0) (+ %s %s) %s)", v, v, pow2s(bitsN), v)
	}
	wl := c.ghostVar("wrLen", "(Array Int Int)")
	wg := c.ghostVar("wrLog", "(Array Int (Array Int Int))")
	wref := "(i.ref " + w.T + ")"
	if w.Dyn != nil && w.DynV != nil && w.DynV.T != "" {
		wref = w.DynV.T
	}
	c.oblige("nilinvoke", f.sweepTags(), g, fmt.Sprintf("(not (= (i.tid %s) 0))", w.T), f.where(in), "binary.Write to a nil io.Writer")
	L := sel(st.get(wl), wref)
	arr := sel(st.get(wg), wref)
	var sum []string
	for k := 0; k < n; k++ {
		sh := k
		if big {
			sh = n - 1 - k
		}
		bt := c.freshConst("wbyte", "Int")
		c.assert(fmt.Sprintf("(and (<= 0 %s) (<= %s 255))", bt, bt))
		dm := fmt.Sprintf("(mod (div %s %s) 256)", v, pow2s(8*sh))
		if sh == 0 {
			dm = fmt.Sprintf("(mod %s 256)", v)
		}
		c.assert(eq(bt, dm))
		sum = append(sum, fmt.Sprintf("(* %s %s)", pow2s(8*sh), bt))
		arr = sto(arr, c.simplify(fmt.Sprintf("(+ %s %d)", L, k)), bt)
	}
	c.assert(fmt.Sprintf("(=> (and (<= 0 %s) (< %s %s)) (= %s (+ %s)))", v, v, pow2s(8*n), v, strings.Join(sum, " ")))
	isBuf := w.Dyn != nil && strings.HasSuffix(w.Dyn.String(), "bytes.Buffer")
	f.x.chargeAllocBytes(st, g, "64")
	if isBuf {
		rd := c.ghostVar("rdLeft", "(Array Int Int)")
		st.set(rd, sto(st.get(rd), wref, fmt.Sprintf("(+ %s %d)", sel(st.get(rd), wref), n)))
		st.set(wl, sto(st.get(wl), wref, fmt.Sprintf("(+ %s %d)", L, n)))
		st.set(wg, sto(st.get(wg), wref, arr))
		return tv("(mk-iface 0 0)"), true
	}
	res := freshErrorOrNil(f, in, st, g)
	okc := "(= (i.tid " + res.T + ") 0)"
	if _, ok := f.x.S.Ghosts["wrNeverFails"]; ok {
		// binary.Write of a fixed-size integer fails only if the writer does
		fnm := c.declFun("ghost:wrNeverFails", []string{"Int"}, "Bool")
		c.assume(g, fmt.Sprintf("(=> %s %s)", app(fnm, wref), okc))
	}
	badLen := c.freshConst("wrlen", "Int")
	c.assert(fmt.Sprintf("(and (>= %s %s) (<= %s (+ %s %d)))", badLen, L, badLen, L, n))
	badArr := c.freshConst("wrlog", "(Array Int Int)")
	c.quant = true
	j := qsym(c.freshName("j"))
	c.assert(fmt.Sprintf("(forall ((%[1]s Int)) (! (=> (and (<= 0 %[1]s) (< %[1]s %[2]s)) (= (select %[3]s %[1]s) (select %[4]s %[1]s))) :pattern ((select %[3]s %[1]s))))", j, L, badArr, sel(st.get(wg), wref)))
	st.set(wl, sto(st.get(wl), wref, ite(okc, fmt.Sprintf("(+ %s %d)", L, n), badLen)))
	st.set(wg, sto(st.get(wg), wref, ite(okc, arr, badArr)))
	return res, true
}
