package main

import (
	"fmt"
	"go/types"
	"strings"

	"golang.org/x/tools/go/ssa"
)

// Go-coded models of a few ubiquitous library functions. Everything else external is described
// by assumed contracts in /verif/stubs/*.spec or havocked.

type intrinsic func(f *Frame, in ssa.Instruction, args []SV, cc *ssa.CallCommon, st *State, g string) (SV, bool)

var intrinsics map[string]intrinsic

func init() {
	intrinsics = map[string]intrinsic{
		"fmt.Errorf":   freshError,
		"errors.New":   freshError,
		"bytes.Equal":  bytesEqual,
		"crypto/sha512.Sum384": hashFn("sha384", 48),
		"crypto/sha256.Sum256": hashFn("sha256", 32),
		"crypto/sha512.Sum512": hashFn("sha512", 64),
	}
	for _, e := range []struct {
		name string
		big  bool
	}{{"littleEndian", false}, {"bigEndian", true}} {
		for _, n := range []int{2, 4, 8} {
			bits := n * 8
			intrinsics[fmt.Sprintf("encoding/binary.%s.Uint%d", e.name, bits)] = endianGet(n, e.big)
			intrinsics[fmt.Sprintf("encoding/binary.%s.PutUint%d", e.name, bits)] = endianPut(n, e.big)
		}
	}
}

func freshError(f *Frame, in ssa.Instruction, args []SV, cc *ssa.CallCommon, st *State, g string) (SV, bool) {
	c := f.c()
	r := st.alloc()
	id := c.typeID(types.NewPointer(types.Universe.Lookup("error").Type())) // a private dynamic type id for library errors
	return tv(fmt.Sprintf("(mk-iface %d %s)", id, r)), true
}

// bval returns the abstract content value of a slice.
func (c *Ctx) bval(st *State, s string, elem types.Type, g string) string {
	arr := sel(st.get(c.elemHeap(elem)), "(s.ref "+s+")")
	v := app("bv.of", arr, "(s.off "+s+")", "(s.len "+s+")")
	c.assume(g, fmt.Sprintf("(= (bv.len %s) (s.len %s))", v, s))
	return v
}

func bytesEqual(f *Frame, in ssa.Instruction, args []SV, cc *ssa.CallCommon, st *State, g string) (SV, bool) {
	c := f.c()
	elem := types.Typ[types.Uint8]
	a, b := c.bval(st, args[0].T, elem, g), c.bval(st, args[1].T, elem, g)
	r := c.freshConst("byteseq", "Bool")
	c.assert(eq(r, eq(a, b)))
	// equal contents have equal lengths; both empty are equal; single-element witness for small literal lengths
	c.assume(g, implies(r, fmt.Sprintf("(= (s.len %s) (s.len %s))", args[0].T, args[1].T)))
	c.assume(g, implies(fmt.Sprintf("(and (= (s.len %s) 0) (= (s.len %s) 0))", args[0].T, args[1].T), r))
	c.assume(g, implies(fmt.Sprintf("(not (= (s.len %s) (s.len %s)))", args[0].T, args[1].T), not(r)))
	return tv(r), true
}

func hashFn(name string, n int) intrinsic {
	return func(f *Frame, in ssa.Instruction, args []SV, cc *ssa.CallCommon, st *State, g string) (SV, bool) {
		c := f.c()
		fn := c.declFun("hash:"+name, []string{"BV"}, "(Array Int Int)")
		v := c.bval(st, args[0].T, types.Typ[types.Uint8], g)
		r := app(fn, v)
		nm := c.freshConst(name, "(Array Int Int)")
		c.assert(eq(nm, r))
		return tv(nm), true
	}
}

func endianGet(n int, big bool) intrinsic {
	return func(f *Frame, in ssa.Instruction, args []SV, cc *ssa.CallCommon, st *State, g string) (SV, bool) {
		c := f.c()
		b := args[len(args)-1].T
		c.oblige("index", f.sweepTags(), g, fmt.Sprintf("(>= %s %d)", c.sLen(b), n), f.where(in), fmt.Sprintf("binary.ByteOrder.Uint%d needs %d bytes", n*8, n))
		arr := sel(st.get(c.elemHeap(types.Typ[types.Uint8])), c.sRef(b))
		var parts []string
		for k := 0; k < n; k++ {
			sh := k
			if big {
				sh = n - 1 - k
			}
			bt := sel(arr, c.simplify(fmt.Sprintf("(+ %s %d)", c.sOff(b), k)))
			c.assume(g, fmt.Sprintf("(and (<= 0 %s) (<= %s 255))", bt, bt))
			if sh == 0 {
				parts = append(parts, bt)
			} else {
				parts = append(parts, fmt.Sprintf("(* %s %s)", pow2s(8*sh), bt))
			}
		}
		name := c.freshConst(fmt.Sprintf("u%d", n*8), "Int")
		c.assert(eq(name, "(+ "+strings.Join(parts, " ")+")"))
		return tv(name), true
	}
}

func endianPut(n int, big bool) intrinsic {
	return func(f *Frame, in ssa.Instruction, args []SV, cc *ssa.CallCommon, st *State, g string) (SV, bool) {
		c := f.c()
		f.x.syncViews(st)
		b, v := args[len(args)-2].T, args[len(args)-1].T
		c.oblige("index", f.sweepTags(), g, fmt.Sprintf("(>= %s %d)", c.sLen(b), n), f.where(in), fmt.Sprintf("binary.ByteOrder.PutUint%d needs %d bytes", n*8, n))
		eh := c.elemHeap(types.Typ[types.Uint8])
		f.x.frameCheck(st, eh, c.sRef(b), g, f.where(in))
		arr := sel(st.get(eh), c.sRef(b))
		for k := 0; k < n; k++ {
			sh := k
			if big {
				sh = n - 1 - k
			}
			bt := fmt.Sprintf("(mod (div %s %s) 256)", v, pow2s(8*sh))
			if sh == 0 {
				bt = fmt.Sprintf("(mod %s 256)", v)
			}
			arr = sto(arr, c.simplify(fmt.Sprintf("(+ %s %d)", c.sOff(b), k)), bt)
		}
		st.set(eh, sto(st.get(eh), c.sRef(b), arr))
		f.x.syncViews(st)
		return SV{}, true
	}
}
