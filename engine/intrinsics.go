package main

import (
	"fmt"
	"go/types"
	"strings"

	"golang.org/x/tools/go/ssa"
)

// Go-coded models of a few ubiquitous library functions. Everything else external is described
// by assumed contracts in /verif/stubs/*.spec or havocked.

type intrinsic func(f *Frame, in ssa.Instruction, args []SV, cc *ssa.CallCommon, st *State, g string) (SV, bool)

var intrinsics map[string]intrinsic

func init() {
	intrinsics = map[string]intrinsic{
		"fmt.Errorf":   freshError,
		"errors.New":   freshError,
		"bytes.Equal":  bytesEqual,
		"google.golang.org/protobuf/proto.Unmarshal": protoUnmarshal,
		"crypto/sha512.Sum384": hashFn("sha384", 48),
		"crypto/sha256.Sum256": hashFn("sha256", 32),
		"crypto/sha512.Sum512": hashFn("sha512", 64),
	}
	for _, e := range []struct {
		name string
		big  bool
	}{{"littleEndian", false}, {"bigEndian", true}} {
		for _, n := range []int{2, 4, 8} {
			bits := n * 8
			intrinsics[fmt.Sprintf("encoding/binary.%s.Uint%d", e.name, bits)] = endianGet(n, e.big)
			intrinsics[fmt.Sprintf("encoding/binary.%s.PutUint%d", e.name, bits)] = endianPut(n, e.big)
		}
	}
}

func freshError(f *Frame, in ssa.Instruction, args []SV, cc *ssa.CallCommon, st *State, g string) (SV, bool) {
	c := f.c()
	r := st.alloc()
	id := c.typeID(types.NewPointer(types.Universe.Lookup("error").Type())) // a private dynamic type id for library errors
	return tv(fmt.Sprintf("(mk-iface %d %s)", id, r)), true
}

// bval returns the abstract content value of a slice.
func (c *Ctx) bval(st *State, s string, elem types.Type, g string) string {
	arr := sel(st.get(c.elemHeap(elem)), "(s.ref "+s+")")
	v := app("bv.of", arr, "(s.off "+s+")", "(s.len "+s+")")
	c.assume(g, fmt.Sprintf("(= (bv.len %s) (s.len %s))", v, s))
	return v
}

func bytesEqual(f *Frame, in ssa.Instruction, args []SV, cc *ssa.CallCommon, st *State, g string) (SV, bool) {
	c := f.c()
	elem := types.Typ[types.Uint8]
	a, b := c.bval(st, args[0].T, elem, g), c.bval(st, args[1].T, elem, g)
	r := c.freshConst("byteseq", "Bool")
	c.assert(eq(r, eq(a, b)))
	// equal contents have equal lengths; both empty are equal; single-element witness for small literal lengths
	c.assume(g, implies(r, fmt.Sprintf("(= (s.len %s) (s.len %s))", args[0].T, args[1].T)))
	c.assume(g, implies(fmt.Sprintf("(and (= (s.len %s) 0) (= (s.len %s) 0))", args[0].T, args[1].T), r))
	c.assume(g, implies(fmt.Sprintf("(not (= (s.len %s) (s.len %s)))", args[0].T, args[1].T), not(r)))
	return tv(r), true
}

func hashFn(name string, n int) intrinsic {
	return func(f *Frame, in ssa.Instruction, args []SV, cc *ssa.CallCommon, st *State, g string) (SV, bool) {
		c := f.c()
		fn := c.declFun("hash:"+name, []string{"BV"}, "(Array Int Int)")
		v := c.bval(st, args[0].T, types.Typ[types.Uint8], g)
		r := app(fn, v)
		nm := c.freshConst(name, "(Array Int Int)")
		c.assert(eq(nm, r))
		return tv(nm), true
	}
}

func endianGet(n int, big bool) intrinsic {
	return func(f *Frame, in ssa.Instruction, args []SV, cc *ssa.CallCommon, st *State, g string) (SV, bool) {
		c := f.c()
		b := args[len(args)-1].T
		c.oblige("index", f.sweepTags(), g, fmt.Sprintf("(>= %s %d)", c.sLen(b), n), f.where(in), fmt.Sprintf("binary.ByteOrder.Uint%d needs %d bytes", n*8, n))
		arr := sel(st.get(c.elemHeap(types.Typ[types.Uint8])), c.sRef(b))
		var parts []string
		for k := 0; k < n; k++ {
			sh := k
			if big {
				sh = n - 1 - k
			}
			bt := sel(arr, c.simplify(fmt.Sprintf("(+ %s %d)", c.sOff(b), k)))
			c.assume(g, fmt.Sprintf("(and (<= 0 %s) (<= %s 255))", bt, bt))
			if sh == 0 {
				parts = append(parts, bt)
			} else {
				parts = append(parts, fmt.Sprintf("(* %s %s)", pow2s(8*sh), bt))
			}
		}
		name := c.freshConst(fmt.Sprintf("u%d", n*8), "Int")
		c.assert(eq(name, "(+ "+strings.Join(parts, " ")+")"))
		return tv(name), true
	}
}

func endianPut(n int, big bool) intrinsic {
	return func(f *Frame, in ssa.Instruction, args []SV, cc *ssa.CallCommon, st *State, g string) (SV, bool) {
		c := f.c()
		f.x.syncViews(st)
		b, v := args[len(args)-2].T, args[len(args)-1].T
		c.oblige("index", f.sweepTags(), g, fmt.Sprintf("(>= %s %d)", c.sLen(b), n), f.where(in), fmt.Sprintf("binary.ByteOrder.PutUint%d needs %d bytes", n*8, n))
		eh := c.elemHeap(types.Typ[types.Uint8])
		f.x.frameCheck(st, eh, c.sRef(b), g, f.where(in))
		arr := sel(st.get(eh), c.sRef(b))
		for k := 0; k < n; k++ {
			sh := k
			if big {
				sh = n - 1 - k
			}
			bt := fmt.Sprintf("(mod (div %s %s) 256)", v, pow2s(8*sh))
			if sh == 0 {
				bt = fmt.Sprintf("(mod %s 256)", v)
			}
			arr = sto(arr, c.simplify(fmt.Sprintf("(+ %s %d)", c.sOff(b), k)), bt)
		}
		st.set(eh, sto(st.get(eh), c.sRef(b), arr))
		f.x.syncViews(st)
		return SV{}, true
	}
}

// protoUnmarshal: the target message's fields become the (uninterpreted, deterministic) decoding of the
// input bytes; nested messages, maps and repeated fields are arbitrary well-typed values.
func protoUnmarshal(f *Frame, in ssa.Instruction, args []SV, cc *ssa.CallCommon, st *State, g string) (SV, bool) {
	c := f.c()
	m := args[1]
	if m.Dyn == nil || m.DynV == nil || m.DynV.T == "" {
		return SV{}, false
	}
	pt, ok := m.Dyn.Underlying().(*types.Pointer)
	if !ok {
		return SV{}, false
	}
	s, ok := pt.Elem().Underlying().(*types.Struct)
	if !ok {
		return SV{}, false
	}
	f.x.syncViews(st)
	f.x.usedStub["model: proto.Unmarshal fills the message with a deterministic function of the input bytes (scalar and bytes fields) and arbitrary well-typed nested values; may fail"] = true
	ref := m.DynV.T
	where := f.where(in)
	c.oblige("nil", f.sweepTags(), g, "(not (= "+ref+" 0))", where, "proto.Unmarshal into nil message")
	input := c.bval(st, args[0].T, types.Typ[types.Uint8], g)
	res := freshErrorOrNil(f, in, st, g)
	okc := "(= (i.tid " + res.T + ") 0)"
	st.bumpWM()
	// ghost: remember which bytes a message object was decoded from
	src := c.ghostVar("pbsrc", "(Array Int BV)")
	okg := c.ghostVar("pbok", "(Array Int Bool)")
	st.set(src, sto(st.get(src), ref, input))
	st.set(okg, sto(st.get(okg), ref, okc))
	for k := 0; k < s.NumFields(); k++ {
		fld := s.Field(k)
		h := c.fieldHeap(pt.Elem(), k)
		f.x.frameCheck(st, h, ref, g, where)
		nv := c.freshConst("pbv", c.sortOf(fld.Type()))
		c.assume(g, c.wf(fld.Type(), nv, st.wm()))
		st.set(h, sto(st.get(h), ref, nv))
		if !fld.Exported() {
			continue
		}
		fn, srt := f.x.pbFieldFn(pt.Elem(), k)
		switch fld.Type().Underlying().(type) {
		case *types.Basic:
			c.assume(g, implies(okc, eq(nv, app(fn, input))))
		case *types.Slice:
			if srt == "BV" {
				arr := sel(st.get(c.elemHeap(types.Typ[types.Uint8])), "(s.ref "+nv+")")
				v := app("bv.of", arr, "(s.off "+nv+")", "(s.len "+nv+")")
				c.assume(g, implies(okc, eq(v, app(fn, input))))
				c.assume(g, fmt.Sprintf("(= (bv.len %s) (s.len %s))", v, nv))
			}
		}
	}
	return res, true
}

func freshErrorOrNil(f *Frame, in ssa.Instruction, st *State, g string) SV {
	c := f.c()
	e := c.freshConst("err", "Iface")
	c.assume(g, c.wf(types.Universe.Lookup("error").Type(), e, st.wm()))
	return tv(e)
}
