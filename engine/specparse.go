package main

import (
	"bufio"
	"fmt"
	"go/scanner"
	"go/token"
	"os"
	"path/filepath"
	"regexp"
	"sort"
	"strings"
)

// ---------------------------------------------------------------------------------------------
// Contract files: comment-only Go files (//@ lines) in the repository, and .spec files (plain
// lines, same grammar) in /verif/stubs and /verif/lemmas.

type Clause struct {
	Kind string // requires ensures assigns invariant decreases
	Tags []string
	Text string
	Loop int
	Src  string // file:line
	expr *Expr
}

type LoopSpec struct {
	Invariants []*Clause
	Decreases  *Clause
	Assigns    []*Clause // loop frame: what the body may write besides memory allocated since the loop was entered
}

type Contract struct {
	Key         string
	Src         string
	Requires    []*Clause
	Ensures     []*Clause
	Assigns     []*Clause
	Loops       map[int]*LoopSpec
	Flags       map[string]string // nowrap, inline, pure, trusted, sweep, noinline, maypanic ...
	Sweep       []string          // property tags served by the sweep obligations of this function
	Params      []string          // optional explicit parameter names (stubs)
	Trusted     bool
	External    bool                       // from /verif/stubs: assumed contract of code outside the repository
	GhostParams [][2]string                // arbitrary-but-fixed ghost parameters (name, sort): proved for a fresh constant, assumed universally
	GhostSets   []*Clause                  // ghost assignments performed when the function returns: "name = expr"
	CallSpecs   map[string][]*Clause       // function-typed parameter -> clauses (over p0,p1,..) guaranteed at each call of it
	SweepKinds  map[string]map[string]bool // property tag -> sweep obligation kinds it claims (absent: all kinds)
}

type GhostFunc struct {
	Name string
	Args []string // SMT sorts
	Ret  string
}

type Axiom struct {
	Name    string
	Text    string
	Src     string
	Trusted bool
}

type Lemma struct {
	Name  string
	Tags  []string
	Hyps  []*Clause
	Goals []*Clause
	Vars  [][2]string // name, sort
	Src   string
}

type GhostDef struct {
	Name   string
	Params [][2]string // name, sort
	Ret    string
	Body   string
	Src    string
	expr   *Expr
}

type Specs struct {
	Defs           map[string]*GhostDef
	Contracts      map[string]*Contract
	Ghosts         map[string]*GhostFunc
	GhostVars      map[string]string // name -> sort
	GhostByRef     map[string]bool
	GhostUntracked map[string]bool
	Axioms         []*Axiom
	Lemmas         []*Lemma
	Files          []string
}

func newSpecs() *Specs {
	return &Specs{Contracts: map[string]*Contract{}, Ghosts: map[string]*GhostFunc{}, GhostVars: map[string]string{}, GhostByRef: map[string]bool{}, GhostUntracked: map[string]bool{}, Defs: map[string]*GhostDef{}}
}

var tagRe = regexp.MustCompile(`^([a-z]+)(\[[A-Za-z0-9_,:\-]+\])?$`)

func splitTags(word string) (kind string, tags []string) {
	m := tagRe.FindStringSubmatch(word)
	if m == nil {
		return word, nil
	}
	kind = m[1]
	if m[2] != "" {
		tags = strings.Split(m[2][1:len(m[2])-1], ",")
	}
	return
}

// loadRepoContracts reads every zz_contracts_verif.go under repo.
func (S *Specs) loadRepoContracts(repo string) error {
	var files []string
	filepath.Walk(repo, func(p string, info os.FileInfo, err error) error {
		if err != nil {
			return nil
		}
		if info.IsDir() && (info.Name() == ".git" || info.Name() == "vendor") {
			return filepath.SkipDir
		}
		if !info.IsDir() && info.Name() == "zz_contracts_verif.go" {
			files = append(files, p)
		}
		return nil
	})
	sort.Strings(files)
	for _, f := range files {
		rel, _ := filepath.Rel(repo, filepath.Dir(f))
		pkg := modPath
		if rel != "." {
			pkg = modPath + "/" + filepath.ToSlash(rel)
		}
		if err := S.loadFile(f, pkg, true); err != nil {
			return err
		}
	}
	return nil
}

func (S *Specs) loadSpecDir(dir string) error {
	fs, _ := filepath.Glob(filepath.Join(dir, "*.spec"))
	sort.Strings(fs)
	for _, f := range fs {
		if err := S.loadFile(f, "", false); err != nil {
			return err
		}
	}
	return nil
}

func (S *Specs) loadFile(path, pkg string, goFile bool) error {
	fh, err := os.Open(path)
	if err != nil {
		return err
	}
	defer fh.Close()
	S.Files = append(S.Files, path)
	sc := bufio.NewScanner(fh)
	sc.Buffer(make([]byte, 1<<20), 1<<20)
	var cur *Contract
	var curLemma *Lemma
	var last *Clause // for continuation lines
	var lastAxiom *Axiom
	var lastDef *GhostDef
	ln := 0
	for sc.Scan() {
		ln++
		line := sc.Text()
		if goFile {
			t := strings.TrimSpace(line)
			if !strings.HasPrefix(t, "//@") {
				continue
			}
			line = strings.TrimPrefix(t, "//@")
		}
		if i := strings.Index(line, "//"); i >= 0 && !strings.Contains(line[:i], "\"") {
			line = line[:i]
		}
		trim := strings.TrimSpace(line)
		if trim == "" || strings.HasPrefix(trim, "#") {
			continue
		}
		src := fmt.Sprintf("%s:%d", path, ln)
		words := strings.Fields(trim)
		kw, tags := splitTags(words[0])
		rest := strings.TrimSpace(strings.TrimPrefix(trim, words[0]))
		switch kw {
		case "func":
			name := words[1]
			key := name
			if goFile {
				key = pkg + "." + name
			}
			cur = &Contract{Key: key, Src: src, Loops: map[int]*LoopSpec{}, Flags: map[string]string{}, External: !goFile}
			if old, ok := S.Contracts[key]; ok {
				return fmt.Errorf("%s: duplicate contract for %s (first at %s)", src, key, old.Src)
			}
			S.Contracts[key] = cur
			curLemma, last, lastAxiom, lastDef = nil, nil, nil, nil
			for _, w := range words[2:] {
				if w == "trusted" {
					cur.Trusted = true
				} else {
					cur.Flags[w] = "1"
				}
			}
		case "atcall":
			// atcall <callee name> requires[tags] <expr over p0, p1, ... and this function's parameters>
			if cur == nil || len(words) < 4 {
				return fmt.Errorf("%s: atcall <callee> requires <expr>", src)
			}
			k2, tags2 := splitTags(words[2])
			if k2 != "requires" {
				return fmt.Errorf("%s: atcall supports only requires", src)
			}
			text := strings.TrimSpace(strings.SplitN(trim, words[2], 2)[1])
			if cur.CallSpecs == nil {
				cur.CallSpecs = map[string][]*Clause{}
			}
			cl := &Clause{Kind: "atcall", Tags: tags2, Text: text, Src: src}
			cur.CallSpecs["@"+words[1]] = append(cur.CallSpecs["@"+words[1]], cl)
			last, lastAxiom = cl, nil
		case "callspec":
			// callspec <param> requires[tags] <expr over p0, p1, ...>
			if cur == nil || len(words) < 4 {
				return fmt.Errorf("%s: callspec <param> requires <expr>", src)
			}
			k2, tags2 := splitTags(words[2])
			if k2 != "requires" {
				return fmt.Errorf("%s: callspec supports only requires", src)
			}
			text := strings.TrimSpace(strings.SplitN(trim, words[2], 2)[1])
			if cur.CallSpecs == nil {
				cur.CallSpecs = map[string][]*Clause{}
			}
			cl := &Clause{Kind: "callspec", Tags: tags2, Text: text, Src: src}
			cur.CallSpecs[words[1]] = append(cur.CallSpecs[words[1]], cl)
			last, lastAxiom = cl, nil
		case "ghostset":
			if cur == nil {
				return fmt.Errorf("%s: ghostset outside func", src)
			}
			cl := &Clause{Kind: "ghostset", Tags: tags, Text: rest, Src: src}
			cur.GhostSets = append(cur.GhostSets, cl)
			last, lastAxiom = cl, nil
		case "ghostparam":
			if cur == nil || len(words) < 3 {
				return fmt.Errorf("%s: ghostparam name sort (inside func)", src)
			}
			cur.GhostParams = append(cur.GhostParams, [2]string{words[1], strings.Join(words[2:], " ")})
		case "ghost":
			// ghost func name(sort, sort) sort   |   ghost var name sort
			cur, curLemma, last, lastAxiom, lastDef = nil, nil, nil, nil, nil
			if len(words) >= 3 && words[1] == "var" {
				ws := words[3:]
				if len(ws) > 0 && ws[len(ws)-1] == "untracked" {
					// changes need not be declared under modifies; meaningful only right after the call that sets it
					S.GhostUntracked[words[2]] = true
					ws = ws[:len(ws)-1]
				}
				if len(ws) > 0 && ws[len(ws)-1] == "byref" {
					// indexed by object reference: entries of objects allocated during a call are invisible to its caller
					S.GhostByRef[words[2]] = true
					ws = ws[:len(ws)-1]
				}
				S.GhostVars[words[2]] = strings.TrimSpace(strings.Join(ws, " "))
				continue
			}
			g, err := parseGhostFunc(strings.TrimSpace(strings.TrimPrefix(rest, "func")))
			if err != nil {
				return fmt.Errorf("%s: %v", src, err)
			}
			S.Ghosts[g.Name] = g
		case "define":
			// define name(a Sort, b Sort) Sort = expr
			cur, curLemma, last, lastAxiom = nil, nil, nil, nil
			eqi := strings.Index(rest, "=")
			for eqi >= 0 && eqi+1 < len(rest) && (rest[eqi+1] == '=' || (eqi > 0 && strings.ContainsRune("<>!=", rune(rest[eqi-1])))) {
				n := strings.Index(rest[eqi+2:], "=")
				if n < 0 {
					eqi = -1
					break
				}
				eqi += 2 + n
			}
			if eqi < 0 {
				return fmt.Errorf("%s: define needs '= body'", src)
			}
			head, body := strings.TrimSpace(rest[:eqi]), strings.TrimSpace(rest[eqi+1:])
			i, j := strings.Index(head, "("), strings.LastIndex(head, ")")
			if i < 0 || j < i {
				return fmt.Errorf("%s: bad define head", src)
			}
			d := &GhostDef{Name: strings.TrimSpace(head[:i]), Ret: strings.TrimSpace(head[j+1:]), Body: body, Src: src}
			for _, pr := range splitTop(head[i+1:j], ',') {
				f := strings.Fields(pr)
				if len(f) < 2 {
					return fmt.Errorf("%s: bad define parameter %q", src, pr)
				}
				d.Params = append(d.Params, [2]string{f[0], strings.Join(f[1:], " ")})
			}
			S.Defs[d.Name] = d
			lastDef = d
		case "axiom":
			cur, curLemma, last = nil, nil, nil
			lastDef = nil
			i := strings.Index(rest, ":")
			if i < 0 {
				return fmt.Errorf("%s: axiom needs 'name: expr'", src)
			}
			lastAxiom = &Axiom{Name: strings.TrimSpace(rest[:i]), Text: strings.TrimSpace(rest[i+1:]), Src: src, Trusted: true}
			S.Axioms = append(S.Axioms, lastAxiom)
		case "lemma":
			cur, last, lastAxiom, lastDef = nil, nil, nil, nil
			curLemma = &Lemma{Name: words[1], Tags: tags, Src: src}
			S.Lemmas = append(S.Lemmas, curLemma)
		case "var":
			if curLemma == nil {
				return fmt.Errorf("%s: var outside lemma", src)
			}
			curLemma.Vars = append(curLemma.Vars, [2]string{words[1], strings.Join(words[2:], " ")})
		case "hyp", "goal":
			if curLemma == nil {
				return fmt.Errorf("%s: %s outside lemma", src, kw)
			}
			cl := &Clause{Kind: kw, Tags: tags, Text: rest, Src: src}
			if kw == "hyp" {
				curLemma.Hyps = append(curLemma.Hyps, cl)
			} else {
				curLemma.Goals = append(curLemma.Goals, cl)
			}
			last, lastAxiom = cl, nil
		case "requires", "ensures", "assigns":
			if cur == nil {
				return fmt.Errorf("%s: clause outside func", src)
			}
			cl := &Clause{Kind: kw, Tags: tags, Text: rest, Src: src}
			switch kw {
			case "requires":
				cur.Requires = append(cur.Requires, cl)
			case "ensures":
				cur.Ensures = append(cur.Ensures, cl)
			case "assigns":
				cur.Assigns = append(cur.Assigns, cl)
			}
			last, lastAxiom = cl, nil
		case "loop":
			if cur == nil || len(words) < 3 {
				return fmt.Errorf("%s: bad loop clause", src)
			}
			var n int
			fmt.Sscanf(words[1], "%d", &n)
			k2, tags2 := splitTags(words[2])
			text := strings.TrimSpace(strings.SplitN(trim, words[2], 2)[1])
			ls := cur.Loops[n]
			if ls == nil {
				ls = &LoopSpec{}
				cur.Loops[n] = ls
			}
			cl := &Clause{Kind: k2, Tags: tags2, Text: text, Loop: n, Src: src}
			switch k2 {
			case "invariant":
				ls.Invariants = append(ls.Invariants, cl)
			case "decreases":
				ls.Decreases = cl
			case "assigns":
				ls.Assigns = append(ls.Assigns, cl)
			default:
				return fmt.Errorf("%s: unknown loop clause %q", src, k2)
			}
			last, lastAxiom = cl, nil
		case "sweep":
			if cur == nil {
				return fmt.Errorf("%s: sweep outside func", src)
			}
			cur.Sweep = append(cur.Sweep, tags...)
			cur.Flags["sweep"] = "1"
			if len(words) > 1 {
				if cur.SweepKinds == nil {
					cur.SweepKinds = map[string]map[string]bool{}
				}
				for _, t := range tags {
					if cur.SweepKinds[t] == nil {
						cur.SweepKinds[t] = map[string]bool{}
					}
					for _, k := range words[1:] {
						cur.SweepKinds[t][k] = true
					}
				}
			}
		case "flag", "nowrap", "inline", "pure", "noinline", "maypanic", "params", "trusted", "total", "alloc", "bounded", "modifies", "axioms", "depth", "exact", "logged", "appendframe":
			if cur == nil {
				return fmt.Errorf("%s: flag outside func", src)
			}
			switch kw {
			case "params":
				cur.Params = words[1:]
			case "trusted":
				cur.Trusted = true
				cur.Flags["why"] = rest
			default:
				v := rest
				if v == "" {
					v = "1"
				}
				cur.Flags[kw] = v
			}
		default:
			// continuation of the previous clause
			if lastDef != nil && last == nil && lastAxiom == nil {
				lastDef.Body += " " + trim
			} else if last != nil {
				last.Text += " " + trim
			} else if lastAxiom != nil {
				lastAxiom.Text += " " + trim
			} else {
				return fmt.Errorf("%s: cannot parse %q", src, trim)
			}
		}
	}
	return nil
}

func parseGhostFunc(s string) (*GhostFunc, error) {
	i := strings.Index(s, "(")
	j := -1
	for k, d := i, 0; i >= 0 && k < len(s); k++ {
		if s[k] == '(' {
			d++
		} else if s[k] == ')' {
			d--
			if d == 0 {
				j = k
				break
			}
		}
	}
	if i < 0 || j < i {
		return nil, fmt.Errorf("bad ghost func %q", s)
	}
	g := &GhostFunc{Name: strings.TrimSpace(s[:i]), Ret: strings.TrimSpace(s[j+1:])}
	for _, a := range splitTop(s[i+1:j], ',') {
		a = strings.TrimSpace(a)
		if a != "" {
			g.Args = append(g.Args, a)
		}
	}
	return g, nil
}

func splitTop(s string, sep rune) []string {
	var out []string
	d := 0
	start := 0
	for i, r := range s {
		switch r {
		case '(', '[':
			d++
		case ')', ']':
			d--
		default:
			if r == sep && d == 0 {
				out = append(out, s[start:i])
				start = i + 1
			}
		}
	}
	out = append(out, s[start:])
	return out
}

// ---------------------------------------------------------------------------------------------
// Expression parser (Go expression syntax + ==>, <==>, forall/exists as calls)

type Expr struct {
	Op   string // id int str char call sel index slice not neg deref + - * / % == != < <= > >= && || imp iff & | ^ << >> &^
	Name string
	Args []*Expr
}

func (e *Expr) String() string {
	switch e.Op {
	case "id", "int", "str", "char":
		return e.Name
	case "sel":
		return e.Args[0].String() + "." + e.Name
	case "call":
		var as []string
		for _, a := range e.Args[1:] {
			as = append(as, a.String())
		}
		return e.Args[0].String() + "(" + strings.Join(as, ", ") + ")"
	}
	var as []string
	for _, a := range e.Args {
		if a == nil {
			as = append(as, "_")
		} else {
			as = append(as, a.String())
		}
	}
	return "(" + e.Op + " " + strings.Join(as, " ") + ")"
}

type tok struct {
	t   token.Token
	lit string
}

type eparser struct {
	toks []tok
	i    int
	src  string
}

func parseExpr(text string) (e *Expr, err error) {
	t := strings.ReplaceAll(text, "<==>", " __iff__ ")
	t = strings.ReplaceAll(t, "==>", " __imp__ ")
	var s scanner.Scanner
	fset := token.NewFileSet()
	file := fset.AddFile("", fset.Base(), len(t))
	var errs []string
	s.Init(file, []byte(t), func(pos token.Position, msg string) { errs = append(errs, msg) }, 0)
	p := &eparser{src: text}
	for {
		_, tk, lit := s.Scan()
		if tk == token.EOF {
			break
		}
		if tk == token.SEMICOLON && lit == "\n" {
			continue
		}
		p.toks = append(p.toks, tok{tk, lit})
	}
	if len(errs) > 0 {
		return nil, fmt.Errorf("scan %q: %s", text, errs[0])
	}
	defer func() {
		if r := recover(); r != nil {
			if s, ok := r.(string); ok {
				err = fmt.Errorf("parse %q: %s", text, s)
				return
			}
			panic(r)
		}
	}()
	e = p.expr(0)
	if p.i < len(p.toks) {
		panic(fmt.Sprintf("unexpected %q", p.toks[p.i].lit+p.toks[p.i].t.String()))
	}
	return e, nil
}

func (p *eparser) peek() tok {
	if p.i < len(p.toks) {
		return p.toks[p.i]
	}
	return tok{token.EOF, ""}
}
func (p *eparser) next() tok { t := p.peek(); p.i++; return t }
func (p *eparser) expect(t token.Token) {
	if p.peek().t != t {
		panic(fmt.Sprintf("expected %s, found %s %q", t, p.peek().t, p.peek().lit))
	}
	p.i++
}

func binPrec(t tok) (int, string) {
	switch t.t {
	case token.IDENT:
		if t.lit == "__iff__" {
			return 1, "iff"
		}
		if t.lit == "__imp__" {
			return 2, "imp"
		}
	case token.LOR:
		return 3, "||"
	case token.LAND:
		return 4, "&&"
	case token.EQL:
		return 5, "=="
	case token.NEQ:
		return 5, "!="
	case token.LSS:
		return 5, "<"
	case token.LEQ:
		return 5, "<="
	case token.GTR:
		return 5, ">"
	case token.GEQ:
		return 5, ">="
	case token.ADD:
		return 6, "+"
	case token.SUB:
		return 6, "-"
	case token.OR:
		return 6, "|"
	case token.XOR:
		return 6, "^"
	case token.MUL:
		return 7, "*"
	case token.QUO:
		return 7, "/"
	case token.REM:
		return 7, "%"
	case token.SHL:
		return 7, "<<"
	case token.SHR:
		return 7, ">>"
	case token.AND:
		return 7, "&"
	case token.AND_NOT:
		return 7, "&^"
	}
	return 0, ""
}

func (p *eparser) expr(minPrec int) *Expr {
	lhs := p.unary()
	for {
		prec, op := binPrec(p.peek())
		if prec == 0 || prec < minPrec {
			return lhs
		}
		p.next()
		var rhs *Expr
		if op == "imp" {
			rhs = p.expr(prec) // right associative
		} else {
			rhs = p.expr(prec + 1)
		}
		lhs = &Expr{Op: op, Args: []*Expr{lhs, rhs}}
	}
}

func (p *eparser) unary() *Expr {
	switch p.peek().t {
	case token.NOT:
		p.next()
		return &Expr{Op: "not", Args: []*Expr{p.unary()}}
	case token.SUB:
		p.next()
		return &Expr{Op: "neg", Args: []*Expr{p.unary()}}
	case token.MUL:
		p.next()
		return &Expr{Op: "deref", Args: []*Expr{p.unary()}}
	case token.XOR:
		p.next()
		return &Expr{Op: "compl", Args: []*Expr{p.unary()}}
	}
	return p.postfix(p.primary())
}

func (p *eparser) primary() *Expr {
	t := p.next()
	switch t.t {
	case token.INT:
		return &Expr{Op: "int", Name: t.lit}
	case token.STRING:
		return &Expr{Op: "str", Name: t.lit}
	case token.CHAR:
		return &Expr{Op: "char", Name: t.lit}
	case token.IDENT:
		return &Expr{Op: "id", Name: t.lit}
	case token.LPAREN:
		e := p.expr(0)
		p.expect(token.RPAREN)
		return e
	case token.LBRACK:
		// []byte(x) style conversions: parse type as id "[]T"
		p.expect(token.RBRACK)
		id := p.next()
		return &Expr{Op: "id", Name: "[]" + id.lit}
	case token.FUNC, token.MAP, token.STRUCT, token.INTERFACE:
		panic("unsupported type literal in spec")
	}
	panic(fmt.Sprintf("unexpected token %s %q", t.t, t.lit))
}

func (p *eparser) postfix(e *Expr) *Expr {
	for {
		switch p.peek().t {
		case token.PERIOD:
			p.next()
			id := p.next()
			if id.t == token.LPAREN {
				// type assertion x.(T) unsupported
				panic("type assertion unsupported in spec")
			}
			e = &Expr{Op: "sel", Name: id.lit, Args: []*Expr{e}}
		case token.LPAREN:
			p.next()
			args := []*Expr{e}
			for p.peek().t != token.RPAREN {
				args = append(args, p.expr(0))
				if p.peek().t == token.COMMA {
					p.next()
				} else {
					break
				}
			}
			p.expect(token.RPAREN)
			e = &Expr{Op: "call", Args: args}
		case token.LBRACK:
			p.next()
			var lo, hi *Expr
			if p.peek().t != token.COLON {
				lo = p.expr(0)
			}
			if p.peek().t == token.COLON {
				p.next()
				if p.peek().t != token.RBRACK {
					hi = p.expr(0)
				}
				p.expect(token.RBRACK)
				e = &Expr{Op: "slice", Args: []*Expr{e, lo, hi}}
			} else {
				p.expect(token.RBRACK)
				e = &Expr{Op: "index", Args: []*Expr{e, lo}}
			}
		default:
			return e
		}
	}
}
