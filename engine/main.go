package main

import (
	"flag"
	"fmt"
	"os"
	"sort"
	"strings"
	"time"
)

func envOr(k, d string) string {
	if v := os.Getenv(k); v != "" {
		return v
	}
	return d
}

func loadAll(repo string, verifDir string) (*Program, *Specs, error) {
	P, err := loadProgram(repo, nil)
	if err != nil {
		return nil, nil, err
	}
	S := newSpecs()
	if err := S.loadRepoContracts(repo); err != nil {
		return nil, nil, err
	}
	if err := S.loadSpecDir(verifDir + "/stubs"); err != nil {
		return nil, nil, err
	}
	if err := S.loadSpecDir(verifDir + "/lemmas"); err != nil {
		return nil, nil, err
	}
	return P, S, nil
}

func main() {
	if len(os.Args) < 2 {
		fmt.Fprintln(os.Stderr, "usage: govc func|check|list ...")
		os.Exit(2)
	}
	switch os.Args[1] {
	case "func":
		cmdFunc(os.Args[2:])
	case "check":
		os.Exit(cmdCheck(os.Args[2:]))
	case "list":
		cmdList(os.Args[2:])
	default:
		fmt.Fprintln(os.Stderr, "unknown command")
		os.Exit(2)
	}
}

func cmdList(args []string) {
	repo := envOr("VERIF_REPO", "/repo")
	P, S, err := loadAll(repo, envOr("VERIF_DIR", "/verif"))
	if err != nil {
		fmt.Fprintln(os.Stderr, err)
		os.Exit(2)
	}
	pat := ""
	if len(args) > 0 {
		pat = args[0]
	}
	for _, k := range P.sortedKeys() {
		if strings.Contains(k, pat) {
			_, has := S.Contracts[k]
			fmt.Println(k, map[bool]string{true: "[contract]", false: ""}[has])
		}
	}
}

func cmdFunc(args []string) {
	fs := flag.NewFlagSet("func", flag.ExitOnError)
	verbose := fs.Bool("v", false, "print every obligation")
	dump := fs.String("dump", "", "directory to keep SMT files")
	tier := fs.String("tier", "quick", "tier")
	dbg := fs.Bool("panic", false, "let engine panics propagate")
	fs.Parse(args)
	debugPanics = *dbg
	repo := envOr("VERIF_REPO", "/repo")
	t0 := time.Now()
	P, S, err := loadAll(repo, envOr("VERIF_DIR", "/verif"))
	if err != nil {
		fmt.Fprintln(os.Stderr, err)
		os.Exit(2)
	}
	fmt.Printf("loaded in %.1fs\n", time.Since(t0).Seconds())
	dir := *dump
	if dir == "" {
		dir, _ = os.MkdirTemp("/dev/shm", "govc-")
		defer os.RemoveAll(dir)
	} else {
		os.MkdirAll(dir, 0o755)
	}
	for _, key := range fs.Args() {
		if P.lookupFunc(key) == nil && P.lookupFunc(modPath+"/"+key) != nil {
			key = modPath + "/" + key
		}
		if S.Contracts[key] == nil {
			// allow ad-hoc sweep of a function without contract
			S.Contracts[key] = &Contract{Key: key, Loops: map[int]*LoopSpec{}, Flags: map[string]string{"sweep": "1"}, Sweep: []string{"adhoc"}}
		}
		t1 := time.Now()
		r := verifyFunction(P, S, key)
		if r.Err != "" {
			fmt.Printf("%s: ERROR %s\n", key, r.Err)
			continue
		}
		gen := time.Since(t1)
		if !*verbose {
			// cover obligations (reachability probes, expected to fail) are only shown with -v
			var keep []*Obligation
			for _, o := range r.Obls {
				if o.Kind != "cover" {
					keep = append(keep, o)
				}
			}
			r.Obls = keep
		}
		dischargeAll(r.Ctx, r.Obls, dir, *tier, 0, 16)
		cnt := map[string]int{}
		for _, o := range r.Obls {
			cnt[o.Status]++
			if *verbose || o.Status != "unsat" {
				fmt.Printf("  %-8s %-60s %s  %s [%s %.2fs %dB]\n", o.Status, o.Name, o.Where, o.Detail, o.Solver, o.TimeS, o.SMTSize)
			}
		}
		var ks []string
		for k, v := range cnt {
			ks = append(ks, fmt.Sprintf("%s=%d", k, v))
		}
		sort.Strings(ks)
		fmt.Printf("%s: %d obligations %v gen=%.2fs total=%.2fs\n", key, len(r.Obls), ks, gen.Seconds(), time.Since(t1).Seconds())
		if *verbose {
			fmt.Println("  inlined:", r.Inlined)
			fmt.Println("  havocked:", r.Havocked)
			fmt.Println("  stubs:", r.Stubs)
			for _, n := range r.Notes {
				fmt.Println("  note:", n)
			}
		}
	}
}

