package main

import (
	"fmt"
	"go/token"
	"go/types"
	"os"
	"sort"
	"strings"

	"golang.org/x/tools/go/packages"
	"golang.org/x/tools/go/ssa"
	"golang.org/x/tools/go/ssa/ssautil"
)

// Program is the loaded repository: typed packages + SSA for the whole dependency closure.
type Program struct {
	Repo  string
	Fset  *token.FileSet
	Pkgs  []*packages.Package
	SSA   *ssa.Program
	byKey map[string]*ssa.Function // "pkgpath.Func", "pkgpath.(*T).M", "pkgpath.T.M", "pkgpath.Func$1"
	pkgs  map[string]*ssa.Package
	// globals that are only ever stored to by package initialisers
	initOnlyGlobals map[*ssa.Global]bool
	globalStores    map[*ssa.Global]int
	flat            []*packages.Package
}

type packagesPackage = packages.Package

const modPath = "github.com/google/gce-tcb-verifier"

func loadProgram(repo string, patterns []string) (*Program, error) {
	if len(patterns) == 0 {
		patterns = []string{"./...", "./gcetcbendorsement/..."}
	}
	cfg := &packages.Config{
		Mode:       packages.LoadAllSyntax,
		Dir:        repo,
		BuildFlags: []string{"-tags=verif"},
		Env:        append(os.Environ(), "GOPROXY=off", "GOSUMDB=off", "GOTOOLCHAIN=local", "GOFLAGS="),
	}
	pkgs, err := packages.Load(cfg, patterns...)
	if err != nil {
		return nil, err
	}
	nerr := 0
	var flat []*packages.Package
	packages.Visit(pkgs, nil, func(p *packages.Package) {
		flat = append(flat, p)
		for _, e := range p.Errors {
			if strings.HasPrefix(p.PkgPath, modPath) {
				fmt.Fprintf(os.Stderr, "load error: %s: %v\n", p.PkgPath, e)
				nerr++
			}
		}
	})
	if nerr > 0 {
		return nil, fmt.Errorf("%d package load errors in repository packages", nerr)
	}
	prog, _ := ssautil.AllPackages(pkgs, ssa.InstantiateGenerics|ssa.GlobalDebug)
	prog.Build()
	P := &Program{Repo: repo, Fset: prog.Fset, Pkgs: pkgs, SSA: prog,
		byKey: map[string]*ssa.Function{}, pkgs: map[string]*ssa.Package{},
		initOnlyGlobals: map[*ssa.Global]bool{}, globalStores: map[*ssa.Global]int{}, flat: flat}
	for _, sp := range prog.AllPackages() {
		P.pkgs[sp.Pkg.Path()] = sp
	}
	for fn := range ssautil.AllFunctions(prog) {
		if k := funcKey(fn); k != "" {
			if old, ok := P.byKey[k]; !ok || (old.Synthetic != "" && fn.Synthetic == "") {
				P.byKey[k] = fn
			}
		}
		isInit := fn.Name() == "init" || strings.HasPrefix(fn.Name(), "init#")
		for _, b := range fn.Blocks {
			for _, in := range b.Instrs {
				if st, ok := in.(*ssa.Store); ok {
					if g, ok := st.Addr.(*ssa.Global); ok {
						if !isInit {
							P.globalStores[g]++
						} else if _, seen := P.globalStores[g]; !seen {
							P.globalStores[g] = 0
						}
					}
				}
			}
		}
	}
	return P, nil
}

// funcKey gives the stable textual key of a function used in contract files.
func funcKey(fn *ssa.Function) string {
	if fn == nil {
		return ""
	}
	if fn.Parent() != nil {
		// anonymous function: Outer$N
		return funcKey(fn.Parent()) + strings.TrimPrefix(fn.Name(), fn.Parent().Name())
	}
	pkg := ""
	if fn.Pkg != nil {
		pkg = fn.Pkg.Pkg.Path()
	} else if fn.Object() != nil && fn.Object().Pkg() != nil {
		pkg = fn.Object().Pkg().Path()
	}
	if recv := fn.Signature.Recv(); recv != nil {
		t := recv.Type()
		ptr := false
		if p, ok := t.(*types.Pointer); ok {
			t = p.Elem()
			ptr = true
		}
		name := ""
		if n, ok := t.(*types.Named); ok {
			name = n.Obj().Name()
			if n.Obj().Pkg() != nil {
				pkg = n.Obj().Pkg().Path()
			}
		} else {
			name = t.String()
		}
		if ptr {
			return fmt.Sprintf("%s.(*%s).%s", pkg, name, fn.Name())
		}
		return fmt.Sprintf("%s.%s.%s", pkg, name, fn.Name())
	}
	if pkg == "" {
		return ""
	}
	return pkg + "." + fn.Name()
}

func (P *Program) lookupFunc(key string) *ssa.Function {
	if f, ok := P.byKey[key]; ok {
		return f
	}
	return nil
}

func (P *Program) sortedKeys() []string {
	var ks []string
	for k := range P.byKey {
		ks = append(ks, k)
	}
	sort.Strings(ks)
	return ks
}

func (P *Program) pos(p token.Pos) string {
	if !p.IsValid() {
		return "-"
	}
	ps := P.Fset.Position(p)
	f := strings.TrimPrefix(ps.Filename, P.Repo+"/")
	return fmt.Sprintf("%s:%d", f, ps.Line)
}

func inRepo(fn *ssa.Function) bool {
	k := funcKey(fn)
	return strings.HasPrefix(k, modPath)
}
