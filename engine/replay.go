package main

// tryReplay attempts to turn the solver's counterexample for obligation o into a concrete failing
// input and run it against the real code (go test -overlay). It returns true when the real code
// exhibited the violation; details are added to r.
func tryReplay(verifDir, prop string, o *Obligation, repo string, r map[string]any) bool {
	if h, ok := replayHandlers[o.Func]; ok {
		return h(verifDir, prop, o, repo, r)
	}
	return false
}

type replayHandler func(verifDir, prop string, o *Obligation, repo string, r map[string]any) bool

var replayHandlers = map[string]replayHandler{}
