package main

import (
	"fmt"
	"go/constant"
	"go/token"
	"go/types"
	"math/big"
	"sort"
	"strings"

	"golang.org/x/tools/go/ssa"
)

// ---------------------------------------------------------------------------------------------
// symbolic values

type pathEl struct {
	structT types.Type // when field projection
	field   int
	idx     string // when array index
	arrT    types.Type
}

// Addr is a symbolic memory location: a cell of a heap array plus a projection path into the value
// stored there.
type Addr struct {
	Heap string
	Ref  string
	Idx  string // for element heaps: absolute index
	Path []pathEl
	Typ  types.Type // type of the location
}

type FnVal struct {
	Fn   *ssa.Function
	Bind []SV
}

type Iter struct {
	mapT    *types.Map
	ref     string
	visited string // ghost state key
	str     bool
}

type SV struct {
	T    string
	A    *Addr
	Fn   *FnVal
	Tup  []SV
	Dyn  types.Type // known dynamic type of an interface value
	DynV *SV
	It   *Iter
}

func tv(t string) SV { return SV{T: t} }

// ---------------------------------------------------------------------------------------------

type Exec struct {
	c         *Ctx
	P         *Program
	S         *Specs
	modsets   map[string]map[string]bool
	discover  bool
	maxDepth  int
	root      *Frame
	rootW0    string // watermark at entry of the function under contract
	cur       *Frame // frame whose instruction is being executed
	rootOld   *State
	views     []view
	inlined   map[string]bool
	havocked  map[string]bool
	usedStub  map[string]bool
	sentinels []string
	fnAt      map[string]*FnVal
	nowrap    bool
	heapRegs  map[string]func(*Ctx)
	varargs   map[string]map[string]SV // alloc ref of a [N]any array -> constant index -> value stored there
}

type view struct {
	ref  string // element-heap ref of the temporary backing array
	elem types.Type
	n    int64
	src  *Addr // the array location it mirrors
}

type retInfo struct {
	guard string
	vals  []SV
	st    *State
}

type deferInfo struct {
	guard string
	call  *ssa.CallCommon
	instr ssa.Instruction
	args  []SV
	fnv   SV
}

type loopInfo struct {
	header   *ssa.BasicBlock
	ordinal  int
	phis     []*ssa.Phi
	havocEnv map[ssa.Value]SV
	headSt   *State         // havocked state at header
	entrySt  *State         // state on first arrival at the header (what pre(...) in an invariant refers to)
	targets  []assignTarget // evaluated `loop N assigns` targets (nil: no loop frame given)
	framed   bool
	entryWm  string
	entryEnv map[ssa.Value]SV // values of the header phis on first arrival (what pre(x) of a loop variable refers to)
	dec0     string
	spec     *LoopSpec
	reach    string
}

type Frame struct {
	x           *Exec
	fn          *ssa.Function
	prefix      string
	env         map[ssa.Value]SV
	depth       int
	stack       []string
	contract    *Contract
	isRoot      bool
	reach       map[*ssa.BasicBlock]string
	out         map[*ssa.BasicBlock]*State
	edge        map[[2]int]string // (from,to) -> guard (reach_from && cond)
	rets        []retInfo
	defers      []deferInfo
	loops       map[*ssa.BasicBlock]*loopInfo
	backEdge    map[[2]int]bool
	entrySt     *State
	params      map[string]SV
	paramSorts  map[string]string
	parent      *Frame
	callBlock   *ssa.BasicBlock
	curBlock    *ssa.BasicBlock
	loopBody    map[*ssa.BasicBlock]map[*ssa.BasicBlock]bool
	nowrap      bool
	debugAll    map[string][]ssa.Value // source name -> values bound to it (from DebugRef), in execution order
	debugStatic map[string][]ssa.Value
}

func (f *Frame) c() *Ctx { return f.x.c }

func (f *Frame) where(in ssa.Instruction) string {
	p := in.Pos()
	if !p.IsValid() {
		// find nearest positioned instruction in block
		if b := in.Block(); b != nil {
			for _, o := range b.Instrs {
				if o.Pos().IsValid() {
					p = o.Pos()
					if o == in {
						break
					}
				}
			}
		}
	}
	return f.x.P.pos(p)
}

// ---------------------------------------------------------------------------------------------
// memory access

func (f *Frame) loadAddr(st *State, a *Addr) string {
	c := f.c()
	f.x.syncViewsBack(st)
	var v string
	if a.Idx != "" {
		v = sel(st.get(a.Heap), a.Ref, a.Idx)
	} else {
		v = sel(st.get(a.Heap), a.Ref)
	}
	for _, p := range a.Path {
		if p.structT != nil {
			v = c.projField(p.structT, v, p.field)
		} else {
			v = sel(v, p.idx)
		}
	}
	return v
}

func (c *Ctx) updPath(cur string, path []pathEl, nv string) string {
	if len(path) == 0 {
		return nv
	}
	p := path[0]
	if p.structT != nil {
		inner := c.projField(p.structT, cur, p.field)
		return c.updField(p.structT, cur, p.field, c.updPath(inner, path[1:], nv))
	}
	inner := sel(cur, p.idx)
	return sto(cur, p.idx, c.updPath(inner, path[1:], nv))
}

func (f *Frame) storeAddr(st *State, a *Addr, v string, guard, where string) {
	c := f.c()
	f.x.syncViewsBack(st)
	if a.Idx != "" {
		f.x.frameCheck(st, a.Heap, a.Ref, guard, where, a.Idx, "(+ "+a.Idx+" 1)")
	} else {
		f.x.frameCheck(st, a.Heap, a.Ref, guard, where)
	}
	h := st.get(a.Heap)
	if a.Idx != "" {
		arr := sel(h, a.Ref)
		cur := sel(arr, a.Idx)
		st.set(a.Heap, sto(h, a.Ref, sto(arr, a.Idx, c.updPath(cur, a.Path, v))))
	} else {
		cur := sel(h, a.Ref)
		st.set(a.Heap, sto(h, a.Ref, c.updPath(cur, a.Path, v)))
	}
	f.x.syncViewsForward(st, a)
}

// loadStruct reads a whole struct through a pointer (per-field heaps).
func (f *Frame) loadStruct(st *State, t types.Type, ref string) string {
	c := f.c()
	s := t.Underlying().(*types.Struct)
	var fs []string
	for i := 0; i < s.NumFields(); i++ {
		fs = append(fs, sel(st.get(c.fieldHeap(t, i)), ref))
	}
	return c.mkStruct(t, fs)
}

func (f *Frame) storeStruct(st *State, t types.Type, ref, v, guard, where string) {
	c := f.c()
	s := t.Underlying().(*types.Struct)
	for i := 0; i < s.NumFields(); i++ {
		h := c.fieldHeap(t, i)
		f.x.frameCheck(st, h, ref, guard, where)
		st.set(h, sto(st.get(h), ref, c.projField(t, v, i)))
	}
}

// load dereferences pointer value p whose pointee type is t.
func (f *Frame) load(st *State, p SV, t types.Type) string {
	if p.A != nil {
		return f.loadAddr(st, p.A)
	}
	if _, ok := t.Underlying().(*types.Struct); ok {
		return f.loadStruct(st, t, p.T)
	}
	return sel(st.get(f.c().boxHeap(t)), p.T)
}

func (f *Frame) store(st *State, p SV, t types.Type, v string, guard, where string) {
	if p.A != nil {
		f.storeAddr(st, p.A, v, guard, where)
		return
	}
	if _, ok := t.Underlying().(*types.Struct); ok {
		f.storeStruct(st, t, p.T, v, guard, where)
		return
	}
	h := f.c().boxHeap(t)
	f.x.frameCheck(st, h, p.T, guard, where)
	st.set(h, sto(st.get(h), p.T, v))
}

// frameCheck: when the function under contract has an assigns clause, every write must target memory
// allocated during the call or an explicitly allowed location.
// rng, when given, is the half-open index range [rng[0], rng[1]) of the backing array that is written; it is
// compared with the window of an `assigns s[*]` target (the elements s[0..len(s)) only).
func (x *Exec) frameCheck(st *State, heap, ref, guard, where string, rng ...string) {
	if strings.HasPrefix(heap, "ghost:") || x.discover {
		return
	}
	// loop frames of every enclosing loop that states one (through inlined frames)
	for fr, blk := x.cur, (*ssa.BasicBlock)(nil); fr != nil; fr, blk = fr.parent, fr.callBlock {
		if blk == nil {
			blk = fr.curBlock
		}
		for h, li := range fr.loops {
			if li == nil || !li.framed || fr.loopBody[h] == nil || !fr.loopBody[h][blk] {
				continue
			}
			allowed := []string{fmt.Sprintf("(>= %s %s)", ref, li.entryWm)}
			if strings.HasPrefix(heap, "E:") {
				allowed = append(allowed, eq(ref, "0"))
			}
			var tags []string
			for _, cl := range li.spec.Assigns {
				tags = append(tags, cl.Tags...)
			}
			for _, tgt := range li.targets {
				if tgt.heap == heap || tgt.heap == "*" {
					if tgt.lo == "" {
						allowed = append(allowed, eq(ref, tgt.ref))
					} else if len(rng) == 2 {
						allowed = append(allowed, and(eq(ref, tgt.ref), x.c.simplify("(<= "+tgt.lo+" "+rng[0]+")"), x.c.simplify("(<= "+rng[1]+" "+tgt.hi+")")))
					}
				}
			}
			x.c.oblige(fmt.Sprintf("loop%d.assigns", li.ordinal), tags, guard, or(allowed...), where, "write to "+heap+" inside the loop must be to memory allocated in the loop or to a loop-assignable location")
		}
	}
	if x.root == nil || x.root.contract == nil || len(x.root.contract.Assigns) == 0 {
		return
	}
	for _, cl := range x.root.contract.Assigns {
		if hasTag(cl.Tags, "assume") {
			// a frame that callers may rely on but that is not checked against the body (listed as an assumption)
			x.c.note("assumption: frame of %s taken without proof: assigns %s", x.root.fn, cl.Text)
			return
		}
	}
	allowed := []string{fmt.Sprintf("(>= %s %s)", ref, x.rootW0)}
	if strings.HasPrefix(heap, "E:") {
		allowed = append(allowed, eq(ref, "0")) // a nil slice has no elements to write
	}
	var tags []string
	for _, cl := range x.root.contract.Assigns {
		tags = append(tags, cl.Tags...)
		for _, tgt := range x.assignTargets(cl) {
			if tgt.heap == heap || tgt.heap == "*" {
				if tgt.lo == "" {
					allowed = append(allowed, eq(ref, tgt.ref))
				} else if len(rng) == 2 {
					allowed = append(allowed, and(eq(ref, tgt.ref), x.c.simplify("(<= "+tgt.lo+" "+rng[0]+")"), x.c.simplify("(<= "+rng[1]+" "+tgt.hi+")")))
				}
			}
		}
	}
	x.c.oblige("assigns", tags, guard, or(allowed...), where, "write to "+heap+" must be to fresh or assignable memory")
}

// assignTarget: one assignable location set: object ref in heap; for `s[*]` lo/hi bound the element window.
type assignTarget struct{ heap, ref, lo, hi string }

func (x *Exec) assignTargets(cl *Clause) []assignTarget {
	txt := strings.TrimSpace(cl.Text)
	if txt == "nothing" || txt == "fresh" || txt == "" {
		return nil
	}
	var out []assignTarget
	env := x.root.specEnv(x.rootOld, x.rootOld, nil)
	for _, part := range splitTop(txt, ',') {
		part = strings.TrimSpace(part)
		ts, err := env.assignTarget(part)
		if err != nil {
			panic(specError{fmt.Sprintf("%s: assigns %q: %v", cl.Src, part, err)})
		}
		out = append(out, ts...)
	}
	return out
}

// views: a slice taken of an array that lives inside a struct / box is given a temporary backing
// array in the element heap; the two copies are re-synchronised around every memory access.
func (x *Exec) readView(st *State, v view) string {
	h := st.get(v.src.Heap)
	var cur string
	if v.src.Idx != "" {
		cur = sel(h, v.src.Ref, v.src.Idx)
	} else {
		cur = sel(h, v.src.Ref)
	}
	for _, p := range v.src.Path {
		if p.structT != nil {
			cur = x.c.projField(p.structT, cur, p.field)
		} else {
			cur = sel(cur, p.idx)
		}
	}
	return cur
}

func (x *Exec) syncViews(st *State) {
	for _, v := range st.views {
		eh := x.c.elemHeap(v.elem)
		curE, curH := st.get(eh), st.get(v.src.Heap)
		mk := st.marks[v.ref]
		if mk == curE+"|"+curH {
			continue
		}
		lastE, lastH := "", ""
		if i := strings.Index(mk, "|"); i >= 0 {
			lastE, lastH = mk[:i], mk[i+1:]
		}
		if mk != "" && curE == lastE && curH != lastH {
			// the array was written directly: refresh the view
			st.set(eh, sto(curE, v.ref, x.readView(st, v)))
		} else {
			// the view was (possibly) written: write it back into the array
			arr := sel(curE, v.ref)
			if v.src.Idx != "" {
				inner := sel(curH, v.src.Ref)
				st.set(v.src.Heap, sto(curH, v.src.Ref, sto(inner, v.src.Idx, x.c.updPath(sel(inner, v.src.Idx), v.src.Path, arr))))
			} else {
				st.set(v.src.Heap, sto(curH, v.src.Ref, x.c.updPath(sel(curH, v.src.Ref), v.src.Path, arr)))
			}
		}
		st.marks[v.ref] = st.get(eh) + "|" + st.get(v.src.Heap)
	}
}

func (x *Exec) syncViewsBack(st *State) { x.syncViews(st) }

func (x *Exec) syncViewsForward(st *State, written *Addr) { x.syncViews(st) }

// ---------------------------------------------------------------------------------------------
// values

func (f *Frame) val(v ssa.Value, st *State) SV {
	if sv, ok := f.env[v]; ok {
		return sv
	}
	c := f.c()
	switch x := v.(type) {
	case *ssa.Const:
		return f.constVal(x)
	case *ssa.Global:
		t := x.Type().(*types.Pointer).Elem()
		pk := ""
		if x.Pkg != nil {
			pk = x.Pkg.Pkg.Path()
		}
		if _, ok := t.Underlying().(*types.Struct); ok {
			// struct globals live at a reserved reference in the field heaps
			ref := c.declConst("gref:"+pk+"."+x.Name(), "Int")
			c.decl("grefax:"+pk+"."+x.Name(), fmt.Sprintf("(assert (and (> %s 0) (< %s %s)))", ref, ref, c.declConst("H0:"+wmKey, "Int")))
			return SV{T: ref}
		}
		h := c.globalHeap(pk, x.Name(), t)
		f.x.globalFacts(x, h, t)
		return SV{A: &Addr{Heap: h, Ref: "1", Typ: t}}
	case *ssa.Function:
		return SV{Fn: &FnVal{Fn: x}}
	case *ssa.FreeVar, *ssa.Parameter:
		panic(fmt.Sprintf("unbound %s in %s", v.Name(), f.fn.Name()))
	case *ssa.Builtin:
		return SV{}
	}
	panic(fmt.Sprintf("value %s (%T) used before definition in %s", v.Name(), v, f.fn))
}

func (x *Exec) globalFacts(g *ssa.Global, heap string, t types.Type) {
	c := x.c
	key := "gfact:" + heap
	if c.declared[key] {
		return
	}
	c.declared[key] = true
	n, stored := x.P.globalStores[g]
	if stored && n > 0 {
		return // assigned outside init: nothing known
	}
	if types.Identical(t, types.Universe.Lookup("error").Type()) {
		// package-level sentinel error, only assigned by the package initialiser
		v := sel(c.declConst("H0:"+heap, c.heapSort[heap]), "1")
		c.decls = append(c.decls, fmt.Sprintf("(assert (and (> (i.tid %s) 0) (> (i.ref %s) 0)))", v, v))
		for _, o := range x.sentinels {
			c.decls = append(c.decls, fmt.Sprintf("(assert (not (= (i.ref %s) (i.ref %s))))", v, o))
		}
		x.sentinels = append(x.sentinels, v)
		c.note("assumed: package-level error variable %s is non-nil, distinct and only set by its package initialiser", g.String())
	}
}

func (f *Frame) constVal(k *ssa.Const) SV {
	c := f.c()
	t := k.Type()
	if k.Value == nil {
		return tv(c.zero(t))
	}
	switch u := t.Underlying().(type) {
	case *types.Basic:
		switch {
		case u.Info()&types.IsBoolean != 0:
			if constant.BoolVal(k.Value) {
				return tv("true")
			}
			return tv("false")
		case u.Info()&types.IsInteger != 0:
			bi, _ := new(big.Int).SetString(constant.ToInt(k.Value).ExactString(), 10)
			if bi == nil {
				return tv("0")
			}
			return tv(bignum(bi))
		case u.Info()&types.IsString != 0:
			return tv(strLit(constant.StringVal(k.Value)))
		case u.Info()&types.IsFloat != 0, u.Info()&types.IsComplex != 0:
			return tv(c.declConst("float:"+k.Value.ExactString(), "Float"))
		}
	}
	return tv(c.zero(t))
}

func (f *Frame) define(v ssa.Value, sv SV, st *State, guard string) {
	c := f.c()
	if sv.T != "" && (len(sv.T) > 40) {
		name := c.declConst(f.prefix+"/"+v.Name(), c.sortOf(v.Type()))
		c.assert(eq(name, sv.T))
		if strings.HasPrefix(sv.T, "(mk-slice ") {
			c.recordSlice(name, sv.T)
		}
		if r, ok := c.bitFoot[sv.T]; ok {
			c.noteBits(name, r[0], r[1])
		}
		sv.T = name
	}
	f.env[v] = sv
}

// havocValue returns a fresh well-formed value of type t.
func (f *Frame) havocValue(base string, t types.Type, st *State, guard string) SV {
	c := f.c()
	if tup, ok := t.(*types.Tuple); ok {
		var out SV
		for i := 0; i < tup.Len(); i++ {
			out.Tup = append(out.Tup, f.havocValue(fmt.Sprintf("%s.%d", base, i), tup.At(i).Type(), st, guard))
		}
		return out
	}
	n := c.freshConst(base, c.sortOf(t))
	c.assume(guard, c.wf(t, n, st.wm()))
	return tv(n)
}

// ---------------------------------------------------------------------------------------------
// function execution

type specError struct{ msg string }

func loopHeaders(fn *ssa.Function) (headers []*ssa.BasicBlock, back map[[2]int]bool) {
	back = map[[2]int]bool{}
	seen := map[*ssa.BasicBlock]bool{}
	for _, b := range fn.Blocks {
		for _, s := range b.Succs {
			if s.Dominates(b) {
				back[[2]int{b.Index, s.Index}] = true
				if !seen[s] {
					seen[s] = true
					headers = append(headers, s)
				}
			}
		}
	}
	// loop ordinals follow source order of the header position
	sort.SliceStable(headers, func(i, j int) bool { return blockPos(headers[i]) < blockPos(headers[j]) })
	return
}

func blockPos(b *ssa.BasicBlock) token.Pos {
	// position of a loop = smallest valid position of instructions in its header or, failing that, index
	best := token.Pos(1 << 40)
	for _, in := range b.Instrs {
		if p := in.Pos(); p.IsValid() && p < best {
			best = p
		}
	}
	if best == token.Pos(1<<40) {
		// fall back to the positions in the first successor (the body)
		for _, s := range b.Succs {
			for _, in := range s.Instrs {
				if p := in.Pos(); p.IsValid() && p < best {
					best = p
				}
			}
		}
	}
	return best + token.Pos(b.Index)*0
}

func rpo(fn *ssa.Function, back map[[2]int]bool) []*ssa.BasicBlock {
	var order []*ssa.BasicBlock
	visited := map[*ssa.BasicBlock]bool{}
	var dfs func(b *ssa.BasicBlock)
	dfs = func(b *ssa.BasicBlock) {
		visited[b] = true
		for i := len(b.Succs) - 1; i >= 0; i-- {
			s := b.Succs[i]
			if back[[2]int{b.Index, s.Index}] || visited[s] {
				continue
			}
			dfs(s)
		}
		order = append(order, b)
	}
	dfs(fn.Blocks[0])
	for i, j := 0, len(order)-1; i < j; i, j = i+1, j-1 {
		order[i], order[j] = order[j], order[i]
	}
	return order
}

// run executes fn symbolically. Returns the merged results and final state; reachOut is the condition
// under which the function returns normally.
func (f *Frame) run(args []SV, st *State, guard string) (results []SV, out *State, reachOut string) {
	fn := f.fn
	c := f.c()
	if len(fn.Blocks) == 0 {
		panic("no body for " + fn.String())
	}
	for i, p := range fn.Params {
		if i < len(args) {
			f.env[p] = args[i]
		}
	}
	headers, back := loopHeaders(fn)
	f.backEdge = back
	f.loops = map[*ssa.BasicBlock]*loopInfo{}
	for i, h := range headers {
		li := &loopInfo{header: h, ordinal: i + 1}
		if f.contract != nil {
			li.spec = f.contract.Loops[i+1]
		}
		f.loops[h] = li
	}
	f.loopBody = map[*ssa.BasicBlock]map[*ssa.BasicBlock]bool{}
	for e := range back {
		t, h := fn.Blocks[e[0]], fn.Blocks[e[1]]
		body := f.loopBody[h]
		if body == nil {
			body = map[*ssa.BasicBlock]bool{h: true}
			f.loopBody[h] = body
		}
		var stack []*ssa.BasicBlock
		if !body[t] {
			body[t] = true
			stack = append(stack, t)
		}
		for len(stack) > 0 {
			b := stack[len(stack)-1]
			stack = stack[:len(stack)-1]
			for _, p := range b.Preds {
				if !body[p] {
					body[p] = true
					stack = append(stack, p)
				}
			}
		}
	}
	order := rpo(fn, back)
	f.reach = map[*ssa.BasicBlock]string{}
	f.out = map[*ssa.BasicBlock]*State{}
	f.edge = map[[2]int]string{}
	f.entrySt = st

	for _, b := range order {
		var cur *State
		var reach string
		if b == fn.Blocks[0] {
			cur, reach = st.clone(), guard
		} else {
			var gs []guardedState
			var rs []string
			for _, p := range b.Preds {
				if back[[2]int{p.Index, b.Index}] {
					continue
				}
				g, ok := f.edge[[2]int{p.Index, b.Index}]
				if !ok {
					continue // predecessor unreachable / not processed
				}
				gs = append(gs, guardedState{g, f.out[p]})
				rs = append(rs, g)
			}
			if len(gs) == 0 {
				continue
			}
			cur = c.mergeStates(gs)
			reach = or(rs...)
			if len(reach) > 40 {
				r := c.declConst(fmt.Sprintf("%s/reach%d", f.prefix, b.Index), "Bool")
				c.assert(eq(r, reach))
				reach = r
			}
		}
		f.reach[b] = reach
		f.curBlock = b
		if li := f.loops[b]; li != nil {
			cur = f.enterLoop(li, b, cur, reach)
		}
		f.execBlock(b, cur, reach, li2(f.loops[b]))
	}
	// merge returns
	if len(f.rets) == 0 {
		return nil, st, "false"
	}
	var gs []guardedState
	var rs []string
	for _, r := range f.rets {
		gs = append(gs, guardedState{r.guard, r.st})
		rs = append(rs, r.guard)
	}
	out = c.mergeStates(gs)
	reachOut = or(rs...)
	n := len(f.rets[0].vals)
	for i := 0; i < n; i++ {
		results = append(results, f.mergeSV(fn.Signature.Results().At(i).Type(), func(k int) (string, SV) { return f.rets[k].guard, f.rets[k].vals[i] }, len(f.rets), fmt.Sprintf("%s/ret%d", f.prefix, i)))
	}
	return
}

func li2(l *loopInfo) *loopInfo { return l }

// mergeSV merges n guarded symbolic values.
func (f *Frame) mergeSV(t types.Type, get func(int) (string, SV), n int, name string) SV {
	c := f.c()
	if n == 1 {
		_, v := get(0)
		return v
	}
	_, first := get(0)
	if first.Tup != nil {
		var out SV
		tup := t.(*types.Tuple)
		for j := range first.Tup {
			out.Tup = append(out.Tup, f.mergeSV(tup.At(j).Type(), func(k int) (string, SV) { g, v := get(k); return g, v.Tup[j] }, n, fmt.Sprintf("%s.%d", name, j)))
		}
		return out
	}
	// all same?
	same := true
	for k := 1; k < n; k++ {
		_, v := get(k)
		if v.T != first.T || v.A != first.A || v.Fn != first.Fn {
			same = false
		}
	}
	if same {
		return first
	}
	var term string
	var dyn types.Type
	dynSame := true
	for k := n - 1; k >= 0; k-- {
		g, v := get(k)
		if v.T == "" {
			// address / function values cannot be merged symbolically
			if v.A != nil {
				c.note("abstraction: interior pointer merged at a join in %s (havocked)", f.fn)
			}
			fr := c.freshConst(name+"?", c.sortOf(t))
			v.T = fr
		}
		if k == n-1 {
			term = v.T
			dyn = v.Dyn
		} else {
			term = ite(g, v.T, term)
			if v.Dyn == nil || dyn == nil || !types.Identical(v.Dyn, dyn) {
				dynSame = false
			}
		}
	}
	out := tv(term)
	if len(term) > 40 {
		nm := c.declConst(c.freshName(name), c.sortOf(t))
		c.assert(eq(nm, term))
		out.T = nm
	}
	if dynSame && dyn != nil {
		out.Dyn = dyn
	}
	return out
}

func (f *Frame) phiEdgeVals(b *ssa.BasicBlock, phi *ssa.Phi, wantBack bool, st *State) (gs []string, vs []SV) {
	for i, p := range b.Preds {
		isBack := f.backEdge[[2]int{p.Index, b.Index}]
		if isBack != wantBack {
			continue
		}
		g, ok := f.edge[[2]int{p.Index, b.Index}]
		if !ok {
			continue
		}
		gs = append(gs, g)
		vs = append(vs, f.val(phi.Edges[i], st))
	}
	return
}

// enclosingLoopKeys lists the loops (in this frame and in the frames of its callers) whose body contains
// block b (respectively the call site).
func (f *Frame) enclosingLoopKeys(b *ssa.BasicBlock, self bool) []string {
	var out []string
	for h, body := range f.loopBody {
		if body[b] {
			out = append(out, f.loopKey(h))
		}
	}
	if f.parent != nil && f.callBlock != nil {
		out = append(out, f.parent.enclosingLoopKeys(f.callBlock, true)...)
	}
	return out
}

func (f *Frame) loopKey(b *ssa.BasicBlock) string {
	return fmt.Sprintf("%s#%d", f.prefix, b.Index)
}

func (f *Frame) enterLoop(li *loopInfo, b *ssa.BasicBlock, entry *State, reach string) *State {
	c := f.c()
	x := f.x
	for _, in := range b.Instrs {
		if phi, ok := in.(*ssa.Phi); ok {
			li.phis = append(li.phis, phi)
		}
	}
	// values on entry edges
	entryEnv := map[ssa.Value]SV{}
	for _, phi := range li.phis {
		gs, vs := f.phiEdgeVals(b, phi, false, entry)
		entryEnv[phi] = f.mergeSV(phi.Type(), func(k int) (string, SV) { return gs[k], vs[k] }, len(vs), f.prefix+"/"+phi.Name()+".entry")
	}
	li.entrySt = entry.clone()
	li.entryEnv = entryEnv
	li.entryWm = entry.wm()
	li.targets, li.framed = nil, false
	if li.spec != nil && len(li.spec.Assigns) > 0 && !x.discover {
		li.framed = true
		env := f.specEnv(entry, f.entrySt, entryEnv)
		for _, cl := range li.spec.Assigns {
			txt := strings.TrimSpace(cl.Text)
			if txt == "nothing" || txt == "fresh" || txt == "" {
				continue
			}
			for _, part := range splitTop(txt, ',') {
				ts, err := env.assignTarget(strings.TrimSpace(part))
				if err != nil {
					panic(specError{fmt.Sprintf("%s: loop assigns %q: %v", cl.Src, part, err)})
				}
				li.targets = append(li.targets, ts...)
			}
		}
	}
	// invariant on entry
	if li.spec != nil && !x.discover {
		for _, inv := range li.spec.Invariants {
			env := f.specEnv(entry, f.entrySt, entryEnv)
			env.loopHeader = b
			env.preSt = li.entrySt
			env.preEnv = li.entryEnv
			t := env.boolClause(inv)
			c.oblige(fmt.Sprintf("loop%d.inv-entry", li.ordinal), inv.Tags, reach, t, inv.Src, inv.Text)
		}
	}
	// havoc
	hs := entry.clone()
	key := f.loopKey(b)
	var names []string
	if x.discover {
		// discovery: nothing is havocked; the back edges record which heap arrays the body changes
	} else {
		for k := range x.modsets[key] {
			if _, ok := c.heapSort[k]; !ok {
				if reg := x.heapRegs[k]; reg != nil {
					reg(c) // first use of this heap is inside the loop: register it now so it is havocked
				}
			}
			names = append(names, k)
		}
	}
	sort.Strings(names)
	for _, k := range names {
		srt, ok := c.heapSort[k]
		if !ok {
			continue
		}
		nv := c.freshConst(fmt.Sprintf("loop%d:%s", li.ordinal, k), srt)
		if k == wmKey {
			c.assert(fmt.Sprintf("(>= %s %s)", nv, entry.get(wmKey)))
		}
		hs.heap[k] = nv
		if li.framed && (strings.HasPrefix(k, "E:") || strings.HasPrefix(k, "F:") || strings.HasPrefix(k, "B:")) {
			// loop frame (justified by the loopN.assigns obligations on every write in the body): objects that
			// existed when the loop was entered and are not assign targets are unchanged; targets given with an
			// element window are unchanged outside it.
			old := entry.get(k)
			c.frameDef[nv] = frameDef{old: old, targets: li.targets, heap: k}
			cond := []string{"(< r! " + li.entryWm + ")"}
			for _, t := range li.targets {
				if t.heap == k || t.heap == "*" {
					cond = append(cond, "(not (= r! "+t.ref+"))")
					if t.lo != "" {
						c.assert(fmt.Sprintf("(forall ((k! Int)) (! (=> (or (< k! %s) (>= k! %s)) (= (select (select %s %s) k!) (select (select %s %s) k!))) :pattern ((select (select %s %s) k!))))",
							t.lo, t.hi, nv, t.ref, old, t.ref, nv, t.ref))
					}
				}
			}
			c.quant = true
			c.assert(fmt.Sprintf("(forall ((r! Int)) (! (=> %s (= (select %s r!) (select %s r!))) :pattern ((select %s r!))))", and(cond...), nv, old, nv))
		}
	}
	for _, k := range names {
		if k != wmKey {
			if q := c.heapWF(k, hs.get(k), hs.wm()); q != "" && hs.heap[k] != entry.heap[k] {
				c.assert(q)
			}
		}
	}
	hs.marks = map[string]string{}
	li.havocEnv = map[ssa.Value]SV{}
	for _, phi := range li.phis {
		ev := entryEnv[phi]
		if ev.T == "" && (ev.A != nil || ev.Fn != nil || ev.It != nil) {
			// loop-carried address/function value: only sound if it is loop-invariant; checked at back edges
			li.havocEnv[phi] = ev
			f.env[phi] = ev
			continue
		}
		hv := f.havocValue(f.prefix+"/"+phi.Name(), phi.Type(), hs, reach)
		li.havocEnv[phi] = hv
		f.env[phi] = hv
		if phi.Comment == "rangeindex" {
			// counter generated by go/ssa for `range` over a slice/array/string: starts at -1, incremented by 1
			c.assume(reach, "(>= "+hv.T+" (- 1))")
			// ... and it is re-entered only after `phi+1 < len` held, so phi is -1 or below the length
			if iff, ok := b.Instrs[len(b.Instrs)-1].(*ssa.If); ok {
				if cmp, ok := iff.Cond.(*ssa.BinOp); ok && cmp.Op == token.LSS {
					if inc, ok := cmp.X.(*ssa.BinOp); ok && inc.Op == token.ADD && inc.X == ssa.Value(phi) {
						if lv, ok := f.env[cmp.Y]; ok && lv.T != "" {
							c.assume(reach, fmt.Sprintf("(or (= %s (- 1)) (< %s %s))", hv.T, hv.T, lv.T))
						} else if k, ok := cmp.Y.(*ssa.Const); ok {
							c.assume(reach, fmt.Sprintf("(or (= %s (- 1)) (< %s %s))", hv.T, hv.T, f.constVal(k).T))
						}
					}
				}
			}
		}
	}
	// opt-in termination sweep (`sweep[Cxx] variant`): a loop of the function under contract that is not a `range`
	// loop must carry a decreases clause; without one its termination is undecided and reported
	if f.isRoot && f.contract != nil && (li.spec == nil || li.spec.Decreases == nil) {
		isRange := false
		for _, phi := range li.phis {
			if phi.Comment == "rangeindex" {
				isRange = true
			}
		}
		for _, in := range b.Instrs {
			if _, ok := in.(*ssa.Next); ok {
				isRange = true
			}
		}
		var tags []string
		for t, ks := range f.contract.SweepKinds {
			if ks["variant"] {
				tags = append(tags, t)
			}
		}
		sort.Strings(tags)
		if !isRange && len(tags) > 0 {
			was := c.finalObl
			c.finalObl = true // report only: never assume 'false'
			c.oblige("variant", tags, reach, "false", f.where(b.Instrs[0]), fmt.Sprintf("loop %d is not a range loop and has no decreases clause: termination undecided", li.ordinal))
			c.finalObl = was
		}
	}
	li.headSt = hs.clone()
	li.reach = reach
	if li.spec != nil {
		for _, inv := range li.spec.Invariants {
			env := f.specEnv(hs, f.entrySt, nil)
			env.loopHeader = b
			env.preSt = li.entrySt
			env.preEnv = li.entryEnv
			c.assume(reach, env.boolClause(inv))
		}
		if li.spec.Decreases != nil {
			env := f.specEnv(hs, f.entrySt, nil)
			env.loopHeader = b
			env.preSt = li.entrySt
			env.preEnv = li.entryEnv
			li.dec0 = env.intClause(li.spec.Decreases)
		}
	}
	return hs
}

func (f *Frame) backEdgeObligations(li *loopInfo, from *ssa.BasicBlock, st *State, guard string) {
	c := f.c()
	x := f.x
	b := li.header
	// modset discovery
	if x.discover {
		key := f.loopKey(b)
		ms := x.modsets[key]
		if ms == nil {
			ms = map[string]bool{}
			x.modsets[key] = ms
		}
		for k, t := range st.heap {
			if _, known := c.heapSort[k]; !known {
				continue
			}
			if li.headSt.get(k) != t {
				ms[k] = true
			}
		}
		// everything an inner (or inlined callee's) loop changes is also changed by the loops around it
		for _, ek := range f.enclosingLoopKeys(b, true) {
			if ek == key {
				continue
			}
			em := x.modsets[ek]
			if em == nil {
				em = map[string]bool{}
				x.modsets[ek] = em
			}
			for k := range ms {
				em[k] = true
			}
		}
		return
	}
	// sanity: every heap array changed in the loop must have been havocked
	for k, t := range st.heap {
		if li.headSt.get(k) != t && !x.modsets[f.loopKey(b)][k] {
			panic(fmt.Sprintf("internal: loop modset of %s misses %s", f.loopKey(b), k))
		}
	}
	backEnv := map[ssa.Value]SV{}
	for i, p := range b.Preds {
		if p != from {
			continue
		}
		for _, phi := range li.phis {
			backEnv[phi] = f.val(phi.Edges[i], st)
		}
	}
	for _, phi := range li.phis {
		hv := li.havocEnv[phi]
		if hv.T == "" && (hv.A != nil || hv.Fn != nil) {
			bv := backEnv[phi]
			if bv.A != hv.A || bv.Fn != hv.Fn {
				c.note("abstraction: loop-carried interior pointer/function value %s in %s is not loop-invariant (unsound havoc avoided: treated as unknown)", phi.Name(), f.fn)
			}
		}
	}
	if li.spec == nil {
		return
	}
	for _, inv := range li.spec.Invariants {
		env := f.specEnv(st, f.entrySt, backEnv)
		env.loopHeader = b
		env.preSt = li.entrySt
		env.preEnv = li.entryEnv
		env.prove = true
		c.oblige(fmt.Sprintf("loop%d.inv-preserved", li.ordinal), inv.Tags, guard, env.boolClause(inv), inv.Src, inv.Text)
	}
	if li.spec.Decreases != nil {
		env := f.specEnv(st, f.entrySt, backEnv)
		env.loopHeader = b
		env.preSt = li.entrySt
		env.preEnv = li.entryEnv
		d1 := env.intClause(li.spec.Decreases)
		c.oblige(fmt.Sprintf("loop%d.decreases", li.ordinal), li.spec.Decreases.Tags, guard,
			fmt.Sprintf("(and (>= %s 0) (< %s %s))", li.dec0, d1, li.dec0), li.spec.Decreases.Src, li.spec.Decreases.Text)
	}
}

func (f *Frame) execBlock(b *ssa.BasicBlock, st *State, reach string, li *loopInfo) {
	for _, in := range b.Instrs {
		if _, ok := in.(*ssa.Phi); ok && li != nil {
			continue // havocked in enterLoop
		}
		f.x.cur, f.curBlock = f, b
		f.execInstr(in, st, reach)
		f.x.cur, f.curBlock = f, b
	}
	f.out[b] = st
	// terminator
	last := b.Instrs[len(b.Instrs)-1]
	switch t := last.(type) {
	case *ssa.If:
		cond := f.val(t.Cond, st).T
		f.setEdge(b, b.Succs[0], and(reach, cond), st)
		f.setEdge(b, b.Succs[1], and(reach, not(cond)), st)
	case *ssa.Jump:
		f.setEdge(b, b.Succs[0], reach, st)
	}
}

func (f *Frame) setEdge(from, to *ssa.BasicBlock, guard string, st *State) {
	c := f.c()
	if len(guard) > 60 {
		g := c.declConst(fmt.Sprintf("%s/edge%d_%d", f.prefix, from.Index, to.Index), "Bool")
		c.assert(eq(g, guard))
		guard = g
	}
	k := [2]int{from.Index, to.Index}
	if old, ok := f.edge[k]; ok {
		guard = or(old, guard)
	}
	f.edge[k] = guard
	if f.backEdge[k] {
		f.backEdgeObligations(f.loops[to], from, st, guard)
	}
}

// ---------------------------------------------------------------------------------------------
// instructions

func (f *Frame) execInstr(in ssa.Instruction, st *State, g string) {
	c := f.c()
	switch i := in.(type) {
	case *ssa.DebugRef:
		if f.debugAll == nil {
			f.debugAll = map[string][]ssa.Value{}
		}
		if obj := i.Object(); obj != nil {
			k := obj.Name()
			if i.IsAddr {
				k = "&" + k
			}
			f.debugAll[k] = append(f.debugAll[k], i.X)
		}
	case *ssa.Alloc:
		t := i.Type().(*types.Pointer).Elem()
		r := st.alloc()
		if s, ok := t.Underlying().(*types.Struct); ok {
			for k := 0; k < s.NumFields(); k++ {
				h := c.fieldHeap(t, k)
				st.set(h, sto(st.get(h), r, c.zero(s.Field(k).Type())))
			}
		} else {
			h := c.boxHeap(t)
			st.set(h, sto(st.get(h), r, c.zero(t)))
		}
		f.env[i] = tv(r)
	case *ssa.Phi:
		gs, vs := f.phiEdgeVals(i.Block(), i, false, st)
		if len(vs) == 0 {
			f.env[i] = tv(c.zero(i.Type()))
			return
		}
		f.define(i, f.mergeSV(i.Type(), func(k int) (string, SV) { return gs[k], vs[k] }, len(vs), f.prefix+"/"+i.Name()), st, g)
	case *ssa.BinOp:
		x, y := f.val(i.X, st), f.val(i.Y, st)
		f.define(i, f.binop(i, i.Op, x, y, i.X.Type(), i.Y.Type(), i.Type(), st, g), st, g)
	case *ssa.UnOp:
		f.unop(i, st, g)
	case *ssa.FieldAddr:
		base := f.val(i.X, st)
		pt := i.X.Type().Underlying().(*types.Pointer).Elem()
		s := pt.Underlying().(*types.Struct)
		ft := s.Field(i.Field).Type()
		if base.A != nil {
			a := *base.A
			a.Path = append(append([]pathEl{}, a.Path...), pathEl{structT: pt, field: i.Field})
			a.Typ = ft
			f.env[i] = SV{A: &a}
		} else {
			c.oblige("nil", f.sweepTags(), g, fmt.Sprintf("(not (= %s 0))", base.T), f.where(i), "nil dereference in field access ."+s.Field(i.Field).Name())
			f.env[i] = SV{A: &Addr{Heap: c.fieldHeap(pt, i.Field), Ref: base.T, Typ: ft}}
		}
	case *ssa.Field:
		x := f.val(i.X, st)
		f.define(i, tv(c.projField(i.X.Type(), x.T, i.Field)), st, g)
	case *ssa.IndexAddr:
		f.indexAddr(i, st, g)
	case *ssa.Index:
		x, idx := f.val(i.X, st), f.val(i.Index, st)
		switch u := i.X.Type().Underlying().(type) {
		case *types.Array:
			c.oblige("index", f.sweepTags(), g, fmt.Sprintf("(and (<= 0 %s) (< %s %d))", idx.T, idx.T, u.Len()), f.where(i), "array index in range")
			f.define(i, tv(sel(x.T, idx.T)), st, g)
		default: // string
			c.useStrings = true
			c.oblige("index", f.sweepTags(), g, fmt.Sprintf("(and (<= 0 %s) (< %s (str.len %s)))", idx.T, idx.T, x.T), f.where(i), "string index in range")
			f.define(i, tv(fmt.Sprintf("(str.to_code (str.at %s %s))", x.T, idx.T)), st, g)
		}
	case *ssa.Slice:
		f.sliceOp(i, st, g)
	case *ssa.Store:
		p := f.val(i.Addr, st)
		t := i.Addr.Type().Underlying().(*types.Pointer).Elem()
		v := f.val(i.Val, st)
		if p.A == nil {
			c.oblige("nil", f.sweepTags(), g, fmt.Sprintf("(not (= %s 0))", p.T), f.where(i), "store through nil pointer")
		}
		if v.T == "" {
			if v.Fn != nil {
				// function value stored to memory: remember it by location
				v.T = f.x.fnTerm(v.Fn, st)
			} else if v.A != nil {
				c.note("abstraction: interior pointer stored to memory in %s (%s)", f.fn, f.where(i))
				v.T = c.freshConst("iptr", "Int")
			} else {
				v.T = c.zero(t)
			}
		}
		f.store(st, p, t, v.T, g, f.where(i))
		if p.A != nil && len(p.A.Path) == 1 && p.A.Path[0].structT == nil && strings.HasPrefix(p.A.Heap, "B:[") {
			// element of a local array (typically the varargs array of a call): remember the value stored
			if f.x.varargs == nil {
				f.x.varargs = map[string]map[string]SV{}
			}
			if f.x.varargs[p.A.Ref] == nil {
				f.x.varargs[p.A.Ref] = map[string]SV{}
			}
			f.x.varargs[p.A.Ref][p.A.Path[0].idx] = v
		}
	case *ssa.MakeInterface:
		f.env[i] = f.makeInterface(i.X.Type(), f.val(i.X, st), st, g)
	case *ssa.ChangeInterface:
		f.env[i] = f.val(i.X, st)
	case *ssa.ChangeType:
		v := f.val(i.X, st)
		if ss, ok := i.X.Type().Underlying().(*types.Struct); ok && v.T != "" && f.c().sortOf(i.X.Type()) != f.c().sortOf(i.Type()) {
			// value conversion between distinct named struct types with identical underlying type: rebuild field-wise
			var fs []string
			for k := 0; k < ss.NumFields(); k++ {
				fs = append(fs, f.c().projField(i.X.Type(), v.T, k))
			}
			v = SV{T: f.c().mkStruct(i.Type(), fs)}
		}
		f.env[i] = v
	case *ssa.Convert:
		f.define(i, f.convert(i, f.val(i.X, st), i.X.Type(), i.Type(), st, g), st, g)
	case *ssa.MultiConvert:
		f.define(i, f.havocValue(f.prefix+"/"+i.Name(), i.Type(), st, g), st, g)
	case *ssa.TypeAssert:
		f.typeAssert(i, st, g)
	case *ssa.Extract:
		t := f.val(i.Tuple, st)
		if i.Index < len(t.Tup) {
			f.env[i] = t.Tup[i.Index]
		} else {
			f.env[i] = f.havocValue(f.prefix+"/"+i.Name(), i.Type(), st, g)
		}
	case *ssa.Call:
		res := f.call(i, i.Common(), st, g)
		if res.T != "" && len(res.T) > 40 {
			f.define(i, res, st, g)
		} else {
			f.env[i] = res
		}
	case *ssa.MakeSlice:
		f.makeSlice(i, st, g)
	case *ssa.MakeMap:
		m := i.Type().Underlying().(*types.Map)
		r := st.alloc()
		has, val, ln := c.mapHeaps(m)
		st.set(has, sto(st.get(has), r, fmt.Sprintf("((as const (Array %s Bool)) false)", c.sortOf(m.Key()))))
		_ = val
		st.set(ln, sto(st.get(ln), r, "0"))
		f.env[i] = tv(r)
	case *ssa.MakeClosure:
		fv := &FnVal{Fn: i.Fn.(*ssa.Function)}
		for _, b := range i.Bindings {
			fv.Bind = append(fv.Bind, f.val(b, st))
		}
		f.env[i] = SV{Fn: fv}
	case *ssa.MakeChan:
		c.note("unsupported: channel in %s", f.fn)
		f.env[i] = tv(st.alloc())
	case *ssa.Lookup:
		f.lookup(i, st, g)
	case *ssa.MapUpdate:
		f.mapUpdate(i, st, g)
	case *ssa.Range:
		x := f.val(i.X, st)
		if m, ok := i.X.Type().Underlying().(*types.Map); ok {
			key := c.ghostVar(c.freshName("visited"), "(Array "+c.sortOf(m.Key())+" Bool)")
			st.heap[key] = fmt.Sprintf("((as const (Array %s Bool)) false)", c.sortOf(m.Key()))
			f.env[i] = SV{It: &Iter{mapT: m, ref: x.T, visited: key}}
		} else {
			f.env[i] = SV{It: &Iter{str: true, ref: x.T}}
		}
	case *ssa.Next:
		f.next(i, st, g)
	case *ssa.Return:
		var vals []SV
		for _, r := range i.Results {
			vals = append(vals, f.val(r, st))
		}
		f.x.syncViewsBack(st)
		f.rets = append(f.rets, retInfo{guard: g, vals: vals, st: st.clone()})
	case *ssa.Panic:
		if f.x.isRootMayPanic() {
			return
		}
		c.oblige("panic", f.sweepTags(), g, "false", f.where(i), "explicit panic reachable")
	case *ssa.If, *ssa.Jump:
		// handled in execBlock
	case *ssa.Defer:
		d := deferInfo{guard: g, call: i.Common(), instr: i}
		for _, a := range i.Call.Args {
			d.args = append(d.args, f.val(a, st))
		}
		if !i.Call.IsInvoke() {
			if _, ok := i.Call.Value.(*ssa.Builtin); !ok {
				d.fnv = f.val(i.Call.Value, st)
			}
		} else {
			d.fnv = f.val(i.Call.Value, st)
		}
		f.defers = append(f.defers, d)
	case *ssa.RunDefers:
		for k := len(f.defers) - 1; k >= 0; k-- {
			d := f.defers[k]
			before := st.clone()
			f.callResolved(d.instr, d.call, d.fnv, d.args, st, and(g, d.guard))
			if d.guard != g && d.guard != "true" {
				m := c.mergeStates([]guardedState{{d.guard, st}, {"true", before}})
				st.heap = m.heap
			}
		}
	case *ssa.Go:
		c.note("unsupported: goroutine started in %s (%s); effects ignored", f.fn, f.where(i))
	case *ssa.Send:
		c.note("unsupported: channel send in %s", f.fn)
	case *ssa.Select:
		c.note("abstraction: select in %s modelled as non-deterministic choice", f.fn)
		hv := f.havocValue(f.prefix+"/"+i.Name(), i.Type(), st, g)
		if len(hv.Tup) > 0 && hv.Tup[0].T != "" {
			lo := 0
			if !i.Blocking {
				lo = -1
			}
			c.assume(g, fmt.Sprintf("(and (<= %d %s) (< %s %d))", lo, hv.Tup[0].T, hv.Tup[0].T, len(i.States)))
		}
		f.env[i] = hv
	case *ssa.SliceToArrayPointer:
		x := f.val(i.X, st)
		at := i.Type().Underlying().(*types.Pointer).Elem().Underlying().(*types.Array)
		c.oblige("slice", f.sweepTags(), g, fmt.Sprintf("(>= (s.len %s) %d)", x.T, at.Len()), f.where(i), "slice to array pointer length")
		r := st.alloc()
		h := c.boxHeap(at)
		arr := c.freshConst("s2a", c.sortOf(at))
		src := sel(st.get(c.elemHeap(at.Elem())), "(s.ref "+x.T+")")
		for k := int64(0); k < at.Len() && k <= 64; k++ {
			c.assume(g, eq(sel(arr, num(k)), sel(src, fmt.Sprintf("(+ (s.off %s) %d)", x.T, k))))
		}
		st.set(h, sto(st.get(h), r, arr))
		c.note("abstraction: slice-to-array-pointer in %s copies instead of aliasing", f.fn)
		f.env[i] = tv(r)
	default:
		panic(fmt.Sprintf("unsupported instruction %T in %s", in, f.fn))
	}
}

func (x *Exec) isRootMayPanic() bool {
	return x.root != nil && x.root.contract != nil && x.root.contract.Flags["maypanic"] != ""
}

func (f *Frame) sweepTags() []string {
	if !f.isRoot && !inRepo(f.fn) {
		return []string{"-"} // obligations inside inlined library code are not claimed by any property
	}
	if f.x.root != nil && f.x.root.contract != nil {
		return f.x.root.contract.Sweep
	}
	return nil
}

func (x *Exec) fnTerm(fv *FnVal, st *State) string {
	// a function value that has to live in memory is given a fresh reference; the association is kept
	// on the side so that a later load of the same term can be resolved.
	r := st.alloc()
	if x.fnAt == nil {
		x.fnAt = map[string]*FnVal{}
	}
	x.fnAt[r] = fv
	return r
}

func (f *Frame) unop(i *ssa.UnOp, st *State, g string) {
	c := f.c()
	x := f.val(i.X, st)
	switch i.Op {
	case token.MUL: // load
		t := i.X.Type().Underlying().(*types.Pointer).Elem()
		if x.A == nil {
			c.oblige("nil", f.sweepTags(), g, fmt.Sprintf("(not (= %s 0))", x.T), f.where(i), "nil pointer dereference")
		}
		v := f.load(st, x, t)
		name := c.declConst(f.prefix+"/"+i.Name(), c.sortOf(t))
		c.assert(eq(name, v))
		c.assume(g, c.wf(t, name, st.wm()))
		sv := tv(name)
		if fv, ok := f.x.fnAt[v]; ok {
			sv.Fn = fv
		}
		f.env[i] = sv
	case token.NOT:
		f.define(i, tv(not(x.T)), st, g)
	case token.SUB:
		bits, signed, _ := intInfo(i.Type())
		if _, isInt := intInfoOK(i.Type()); !isInt {
			f.env[i] = f.havocValue(f.prefix+"/"+i.Name(), i.Type(), st, g)
			return
		}
		f.define(i, tv(wrap("(- "+x.T+")", bits, signed)), st, g)
	case token.XOR:
		bits, signed, _ := intInfo(i.Type())
		if signed {
			f.define(i, tv("(- (- "+x.T+") 1)"), st, g)
		} else {
			lo, hi := intRange(bits, false)
			_ = lo
			f.define(i, tv("(- "+hi+" "+x.T+")"), st, g)
		}
	case token.ARROW:
		c.note("unsupported: channel receive in %s", f.fn)
		f.env[i] = f.havocValue(f.prefix+"/"+i.Name(), i.Type(), st, g)
	default:
		panic("unop " + i.Op.String())
	}
}

func intInfoOK(t types.Type) (int, bool) {
	b, _, ok := intInfo(t)
	return b, ok
}

func (f *Frame) indexAddr(i *ssa.IndexAddr, st *State, g string) {
	c := f.c()
	x, idx := f.val(i.X, st), f.val(i.Index, st)
	switch u := i.X.Type().Underlying().(type) {
	case *types.Slice:
		c.oblige("index", f.sweepTags(), g, fmt.Sprintf("(and (<= 0 %s) (< %s %s))", idx.T, idx.T, c.sLen(x.T)), f.where(i), "slice index in range")
		f.env[i] = SV{A: &Addr{Heap: c.elemHeap(u.Elem()), Ref: c.sRef(x.T), Idx: c.simplify(fmt.Sprintf("(+ %s %s)", c.sOff(x.T), idx.T)), Typ: u.Elem()}}
	case *types.Pointer:
		at := u.Elem().Underlying().(*types.Array)
		c.oblige("index", f.sweepTags(), g, fmt.Sprintf("(and (<= 0 %s) (< %s %d))", idx.T, idx.T, at.Len()), f.where(i), "array index in range")
		if x.A != nil {
			a := *x.A
			a.Path = append(append([]pathEl{}, a.Path...), pathEl{idx: idx.T, arrT: u.Elem()})
			a.Typ = at.Elem()
			f.env[i] = SV{A: &a}
		} else {
			c.oblige("nil", f.sweepTags(), g, fmt.Sprintf("(not (= %s 0))", x.T), f.where(i), "nil array pointer")
			f.env[i] = SV{A: &Addr{Heap: c.boxHeap(u.Elem()), Ref: x.T, Path: []pathEl{{idx: idx.T, arrT: u.Elem()}}, Typ: at.Elem()}}
		}
	default:
		panic("indexaddr on " + i.X.Type().String())
	}
}

func (f *Frame) sliceOp(i *ssa.Slice, st *State, g string) {
	c := f.c()
	x := f.val(i.X, st)
	opt := func(v ssa.Value) string {
		if v == nil {
			return ""
		}
		return f.val(v, st).T
	}
	lo, hi, mx := opt(i.Low), opt(i.High), opt(i.Max)
	if lo == "" {
		lo = "0"
	}
	switch u := i.X.Type().Underlying().(type) {
	case *types.Slice:
		capv := c.sCap(x.T)
		if hi == "" {
			hi = c.sLen(x.T)
		}
		bound := capv
		if mx != "" {
			bound = mx
		}
		goal := fmt.Sprintf("(and (<= 0 %s) (<= %s %s) (<= %s %s))", lo, lo, hi, hi, bound)
		if mx != "" {
			goal = and(goal, fmt.Sprintf("(<= %s %s)", mx, capv))
		}
		c.oblige("slice", f.sweepTags(), g, goal, f.where(i), "slice bounds in range")
		// s[lo:hi] of a nil slice stays nil
		// (a nil slice has off = cap = 0, so slicing it yields the nil slice header again)
		res := c.mkSlice(c.sRef(x.T), "(+ "+c.sOff(x.T)+" "+lo+")", "(- "+hi+" "+lo+")", "(- "+bound+" "+lo+")")
		f.define(i, tv(res), st, g)
	case *types.Basic: // string
		c.useStrings = true
		if hi == "" {
			hi = "(str.len " + x.T + ")"
		}
		c.oblige("slice", f.sweepTags(), g, fmt.Sprintf("(and (<= 0 %s) (<= %s %s) (<= %s (str.len %s)))", lo, lo, hi, hi, x.T), f.where(i), "string slice bounds in range")
		f.define(i, tv(fmt.Sprintf("(str.substr %s %s (- %s %s))", x.T, lo, hi, lo)), st, g)
	case *types.Pointer:
		at := u.Elem().Underlying().(*types.Array)
		n := at.Len()
		if hi == "" {
			hi = num(n)
		}
		bound := num(n)
		if mx != "" {
			bound = mx
		}
		c.oblige("slice", f.sweepTags(), g, fmt.Sprintf("(and (<= 0 %s) (<= %s %s) (<= %s %s) (<= %s %d))", lo, lo, hi, hi, bound, bound, n), f.where(i), "array slice bounds in range")
		// create a view of the array in the element heap
		var src *Addr
		if x.A != nil {
			src = x.A
		} else {
			c.oblige("nil", f.sweepTags(), g, fmt.Sprintf("(not (= %s 0))", x.T), f.where(i), "nil array pointer sliced")
			src = &Addr{Heap: c.boxHeap(u.Elem()), Ref: x.T, Typ: u.Elem()}
		}
		var r string
		for _, v := range st.views {
			if v.src.Heap == src.Heap && v.src.Ref == src.Ref && v.src.Idx == src.Idx && pathEq(v.src.Path, src.Path) {
				r = v.ref
			}
		}
		if r == "" {
			r = st.alloc()
			eh := c.elemHeap(at.Elem())
			st.set(eh, sto(st.get(eh), r, f.loadAddr(st, src)))
			st.views = append(st.views, view{ref: r, elem: at.Elem(), n: n, src: src})
			st.marks[r] = st.get(eh) + "|" + st.get(src.Heap)
		}
		f.define(i, tv(c.mkSlice(r, lo, "(- "+hi+" "+lo+")", "(- "+bound+" "+lo+")")), st, g)
	default:
		panic("slice of " + i.X.Type().String())
	}
}

func pathEq(a, b []pathEl) bool {
	if len(a) != len(b) {
		return false
	}
	for i := range a {
		if a[i].field != b[i].field || a[i].idx != b[i].idx || (a[i].structT == nil) != (b[i].structT == nil) {
			return false
		}
	}
	return true
}

func (f *Frame) makeSlice(i *ssa.MakeSlice, st *State, g string) {
	c := f.c()
	ln, cp := f.val(i.Len, st).T, f.val(i.Cap, st).T
	elem := i.Type().Underlying().(*types.Slice).Elem()
	// a negative length is a panic of its own (and a different defect from an over-large one): separate obligation,
	// so that a site whose size bound is a recorded finding still reports a length that can go negative
	if bt, ok := i.Len.Type().Underlying().(*types.Basic); ok && bt.Info()&types.IsUnsigned == 0 {
		if _, isConst := i.Len.(*ssa.Const); !isConst {
			c.oblige("makelen", f.sweepTags(), g, fmt.Sprintf("(<= 0 %s)", ln), f.where(i), "make([]T, len): len >= 0")
		}
	}
	c.oblige("makeslice", f.sweepTags(), g, fmt.Sprintf("(and (<= 0 %s) (<= %s %s) (<= %s 281474976710656))", ln, ln, cp, cp), f.where(i), "make([]T, len, cap): 0 <= len <= cap < 2^48")
	f.x.chargeAlloc(st, g, cp, elem, f.where(i))
	r := st.alloc()
	eh := c.elemHeap(elem)
	st.set(eh, sto(st.get(eh), r, c.zero(types.NewArray(elem, 0))))
	f.env[i] = tv(c.mkSlice(r, "0", ln, cp))
}

func (f *Frame) makeInterface(t types.Type, x SV, st *State, g string) SV {
	c := f.c()
	id := c.typeID(t)
	if _, isIface := t.Underlying().(*types.Interface); isIface {
		return x
	}
	var ref string
	_, isPtr := t.Underlying().(*types.Pointer)
	if isPtr && x.T != "" {
		ref = x.T // a nil pointer in an interface is a non-nil interface; ref stays 0
	} else if x.T != "" {
		// non-pointer dynamic values are immutable: box them with an injective function so that interface
		// equality coincides with value equality
		srt := c.sortOf(t)
		bx := c.declFun("box:"+typeKey(t), []string{srt}, "Int")
		ub := c.declFun("unbox:"+typeKey(t), []string{"Int"}, srt)
		ref = app(bx, x.T)
		c.assert(fmt.Sprintf("(and (= (%s %s) %s) (< %s 0))", ub, ref, x.T, ref))
	} else {
		ref = st.alloc()
		if x.Fn != nil {
			if f.x.fnAt == nil {
				f.x.fnAt = map[string]*FnVal{}
			}
			f.x.fnAt[ref] = x.Fn
		}
	}
	xv := x
	return SV{T: fmt.Sprintf("(mk-iface %d %s)", id, ref), Dyn: t, DynV: &xv}
}

func (f *Frame) typeAssert(i *ssa.TypeAssert, st *State, g string) {
	c := f.c()
	x := f.val(i.X, st)
	at := i.AssertedType
	var ok, val string
	if _, isIface := at.Underlying().(*types.Interface); isIface {
		val = x.T
		if x.Dyn != nil {
			if types.Implements(x.Dyn, at.Underlying().(*types.Interface)) {
				ok = "true"
			} else {
				ok = "false"
			}
		} else if xi, isI := i.X.Type().Underlying().(*types.Interface); isI && types.Implements(xi, at.Underlying().(*types.Interface)) {
			ok = fmt.Sprintf("(not (= (i.tid %s) 0))", x.T)
		} else {
			okc := c.freshConst(f.prefix+"/"+i.Name()+".ok", "Bool")
			c.assume(g, implies(okc, fmt.Sprintf("(not (= (i.tid %s) 0))", x.T)))
			ok = okc
		}
	} else {
		id := c.typeID(at)
		ok = fmt.Sprintf("(= (i.tid %s) %d)", x.T, id)
		if x.Dyn != nil {
			if types.Identical(x.Dyn, at) {
				ok = "true"
			} else {
				ok = "false"
			}
		}
		if _, isPtr := at.Underlying().(*types.Pointer); isPtr {
			val = fmt.Sprintf("(i.ref %s)", x.T)
		} else {
			ub := c.declFun("unbox:"+typeKey(at), []string{"Int"}, c.sortOf(at))
			val = app(ub, fmt.Sprintf("(i.ref %s)", x.T))
		}
		c.assume(and(g, ok), c.wf(at, val, st.wm()))
	}
	if i.CommaOk {
		v := ite(ok, val, c.zero(at))
		f.env[i] = SV{Tup: []SV{tv(v), tv(ok)}}
		return
	}
	c.oblige("typeassert", f.sweepTags(), g, ok, f.where(i), "type assertion to "+at.String())
	sv := tv(val)
	f.define(i, sv, st, g)
}

func (f *Frame) lookup(i *ssa.Lookup, st *State, g string) {
	c := f.c()
	x, k := f.val(i.X, st), f.val(i.Index, st)
	switch u := i.X.Type().Underlying().(type) {
	case *types.Map:
		has, val, _ := c.mapHeaps(u)
		h := sel(st.get(has), x.T, k.T)
		h = and(fmt.Sprintf("(not (= %s 0))", x.T), h)
		v := ite(h, sel(st.get(val), x.T, k.T), c.zero(u.Elem()))
		name := c.declConst(f.prefix+"/"+i.Name()+".v", c.sortOf(u.Elem()))
		c.assert(eq(name, v))
		c.assume(g, c.wf(u.Elem(), name, st.wm()))
		if i.CommaOk {
			f.env[i] = SV{Tup: []SV{tv(name), tv(h)}}
		} else {
			f.env[i] = tv(name)
		}
	default: // string index
		c.useStrings = true
		c.oblige("index", f.sweepTags(), g, fmt.Sprintf("(and (<= 0 %s) (< %s (str.len %s)))", k.T, k.T, x.T), f.where(i), "string index in range")
		name := c.declConst(f.prefix+"/"+i.Name(), "Int")
		c.assert(eq(name, fmt.Sprintf("(str.to_code (str.at %s %s))", x.T, k.T)))
		c.assume(g, fmt.Sprintf("(and (<= 0 %s) (<= %s 255))", name, name))
		f.env[i] = tv(name)
	}
}

func (f *Frame) mapUpdate(i *ssa.MapUpdate, st *State, g string) {
	c := f.c()
	m, k, v := f.val(i.Map, st), f.val(i.Key, st), f.val(i.Value, st)
	mt := i.Map.Type().Underlying().(*types.Map)
	has, val, ln := c.mapHeaps(mt)
	c.oblige("nilmap", f.sweepTags(), g, fmt.Sprintf("(not (= %s 0))", m.T), f.where(i), "assignment to entry in nil map")
	f.x.frameCheck(st, has, m.T, g, f.where(i))
	if v.T == "" {
		if v.Fn != nil {
			v.T = f.x.fnTerm(v.Fn, st)
		} else {
			v.T = c.zero(mt.Elem())
		}
	}
	oldHas := sel(st.get(has), m.T, k.T)
	st.set(ln, sto(st.get(ln), m.T, ite(oldHas, sel(st.get(ln), m.T), "(+ 1 "+sel(st.get(ln), m.T)+")")))
	st.set(has, sto(st.get(has), m.T, sto(sel(st.get(has), m.T), k.T, "true")))
	st.set(val, sto(st.get(val), m.T, sto(sel(st.get(val), m.T), k.T, v.T)))
}

func (f *Frame) next(i *ssa.Next, st *State, g string) {
	c := f.c()
	it := f.val(i.Iter, st).It
	if it == nil || it.str {
		f.env[i] = f.havocValue(f.prefix+"/"+i.Name(), i.Type(), st, g)
		if it != nil {
			c.note("abstraction: range over string in %s yields unconstrained runes", f.fn)
		}
		return
	}
	has, val, _ := c.mapHeaps(it.mapT)
	ok := c.freshConst(f.prefix+"/"+i.Name()+".ok", "Bool")
	k := c.freshConst(f.prefix+"/"+i.Name()+".k", c.sortOf(it.mapT.Key()))
	vis := st.get(it.visited)
	hasArr := sel(st.get(has), it.ref)
	c.assume(g, c.wf(it.mapT.Key(), k, st.wm()))
	c.assume(g, implies(ok, and(fmt.Sprintf("(not (= %s 0))", it.ref), sel(hasArr, k), not(sel(vis, k)))))
	// when the iteration ends every present key has been visited
	kk := c.freshName("k")
	c.quant = true
	c.assume(g, implies(not(ok), fmt.Sprintf("(forall ((%s %s)) (=> (and (not (= %s 0)) (select %s %s)) (select %s %s)))", qsym(kk), c.sortOf(it.mapT.Key()), it.ref, hasArr, qsym(kk), vis, qsym(kk))))
	st.heap[it.visited] = ite(ok, sto(vis, k, "true"), vis)
	v := c.freshConst(f.prefix+"/"+i.Name()+".v", c.sortOf(it.mapT.Elem()))
	c.assume(g, implies(ok, eq(v, sel(st.get(val), it.ref, k))))
	c.assume(g, c.wf(it.mapT.Elem(), v, st.wm()))
	f.env[i] = SV{Tup: []SV{tv(ok), tv(k), tv(v)}}
}
