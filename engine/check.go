package main

import (
	"bufio"
	"context"
	"encoding/json"
	"flag"
	"fmt"
	"os"
	"path/filepath"
	"regexp"
	"sort"
	"strings"
	"sync"
	"time"
)

type knownFinding struct {
	Property   string
	Obligation string
	Text       string
}

func loadKnownFindings(path string) ([]knownFinding, error) {
	f, err := os.Open(path)
	if err != nil {
		if os.IsNotExist(err) {
			return nil, nil
		}
		return nil, err
	}
	defer f.Close()
	var out []knownFinding
	re := regexp.MustCompile(`^finding:\s+property=(\S+)\s+obligation=(\S+)\s*(.*)$`)
	sc := bufio.NewScanner(f)
	for sc.Scan() {
		if m := re.FindStringSubmatch(strings.TrimSpace(sc.Text())); m != nil {
			out = append(out, knownFinding{m[1], m[2], m[3]})
		}
	}
	return out, nil
}

func hasTag(tags []string, p string) bool {
	for _, t := range tags {
		if t == p {
			return true
		}
	}
	return false
}

func contractServes(ct *Contract, prop string) bool {
	if hasTag(ct.Sweep, prop) {
		return true
	}
	for _, cls := range [][]*Clause{ct.Requires, ct.Ensures, ct.Assigns} {
		for _, cl := range cls {
			if hasTag(cl.Tags, prop) {
				return true
			}
		}
	}
	for _, m := range []map[string][]*Clause{ct.CallSpecs} {
		for _, cls := range m {
			for _, cl := range cls {
				if hasTag(cl.Tags, prop) {
					return true
				}
			}
		}
	}
	for _, l := range ct.Loops {
		for _, cl := range l.Invariants {
			if hasTag(cl.Tags, prop) {
				return true
			}
		}
		if l.Decreases != nil && hasTag(l.Decreases.Tags, prop) {
			return true
		}
	}
	return false
}

var structuralKinds = regexp.MustCompile(`^(requires|ensures|assigns|callspec|atcall|ghostframe|loop\d+\.(inv-entry|inv-preserved|decreases))$`)

func oblServes(o *Obligation, prop string) bool {
	if hasTag(o.Tags, prop) {
		return true
	}
	if len(o.Tags) == 0 && structuralKinds.MatchString(o.Kind) {
		return true
	}
	return false
}

type sample struct {
	Obligation string  `json:"obligation"`
	Kind       string  `json:"kind"`
	Where      string  `json:"where"`
	Detail     string  `json:"detail"`
	Status     string  `json:"status"`
	Solver     string  `json:"solver"`
	TimeS      float64 `json:"time_s"`
	SMTBytes   int     `json:"smt_bytes"`
}

type funcEvidence struct {
	Function    string   `json:"function"`
	Obligations int      `json:"obligations"`
	Discharged  int      `json:"discharged"`
	Inlined     []string `json:"inlined_callees,omitempty"`
	Havocked    []string `json:"havocked_calls,omitempty"`
	Contracts   []string `json:"contracts_and_stubs_used,omitempty"`
	Notes       []string `json:"abstraction_notes,omitempty"`
	GenS        float64  `json:"vcgen_s"`
}

func cmdCheck(args []string) int {
	fs := flag.NewFlagSet("check", flag.ExitOnError)
	tier := fs.String("tier", envOr("VERIF_TIER", "quick"), "quick|thorough")
	verbose := fs.Bool("v", false, "verbose")
	keep := fs.String("dump", "", "keep SMT files in this directory")
	fs.Parse(args)
	if fs.NArg() != 1 {
		fmt.Fprintln(os.Stderr, "usage: govc check [-tier quick|thorough] Cxx")
		return 2
	}
	prop := fs.Arg(0)
	seed := 0
	fmt.Sscanf(os.Getenv("VERIF_SEED"), "%d", &seed)
	verifDir := envOr("VERIF_DIR", "/verif")
	repo := envOr("VERIF_REPO", "/repo")
	t0 := time.Now()
	evDir := envOr("VERIF_EVIDENCE_DIR", filepath.Join(verifDir, "evidence"))
	evPath := filepath.Join(evDir, prop+".json")
	os.MkdirAll(filepath.Join(evDir, "replay"), 0o755)

	fail := func(msg string) int {
		fmt.Printf("ERROR property=%s %s\n", prop, msg)
		return 2
	}
	P, S, err := loadAll(repo, verifDir)
	if err != nil {
		return fail("cannot load repository or contracts: " + err.Error())
	}
	loadS := time.Since(t0).Seconds()
	known, err := loadKnownFindings(filepath.Join(verifDir, "known_findings.txt"))
	if err != nil {
		return fail(err.Error())
	}
	var keys []string
	for k, ct := range S.Contracts {
		if !ct.External && contractServes(ct, prop) {
			keys = append(keys, k)
		}
	}
	sort.Strings(keys)
	var lemmas []*Lemma
	for _, l := range S.Lemmas {
		if hasTag(l.Tags, prop) {
			lemmas = append(lemmas, l)
		}
	}
	if len(keys) == 0 && len(lemmas) == 0 {
		return fail("no contract clause serves this property")
	}
	dir := *keep
	if dir == "" {
		dir, _ = os.MkdirTemp("/dev/shm", "govc-"+prop+"-")
		defer os.RemoveAll(dir)
	} else {
		os.MkdirAll(dir, 0o755)
	}

	checkProp = prop
	// generate
	type job struct {
		res    *FuncResult
		obls   []*Obligation
		covers []*Obligation
		genS   float64
	}
	jobs := make([]*job, len(keys))
	var wg sync.WaitGroup
	sem := make(chan struct{}, 8)
	var mu sync.Mutex
	_ = mu
	for i, k := range keys {
		wg.Add(1)
		sem <- struct{}{}
		go func(i int, k string) {
			defer wg.Done()
			defer func() { <-sem }()
			t1 := time.Now()
			r := verifyFunction(P, S, k)
			j := &job{res: r, genS: time.Since(t1).Seconds()}
			for _, o := range r.Obls {
				if o.Kind == "cover" {
					if *tier == "thorough" {
						j.covers = append(j.covers, o)
					}
					continue
				}
				if oblServes(o, prop) {
					if *tier != "thorough" && hasTag(o.Tags, "slow") {
						continue // clauses tagged slow are decided in the thorough tier only (longer solver budget)
					}
					j.obls = append(j.obls, o)
				}
			}
			jobs[i] = j
		}(i, k)
	}
	wg.Wait()
	// A contract that can no longer be stated against the code (the function or a variable/field it
	// names is gone, a signature changed) is an obligation that cannot be discharged: it is reported as a
	// violation without a failing input. Engine failures and load errors stay errors (exit 2).
	var drift []*Obligation
	var kept []*job
	for _, j := range jobs {
		if j.res.Err == "" {
			kept = append(kept, j)
			continue
		}
		if strings.HasPrefix(j.res.Err, "contract error") || strings.HasPrefix(j.res.Err, "function under contract not found") || strings.HasPrefix(j.res.Err, "function has no body") {
			drift = append(drift, &Obligation{Name: j.res.Key + "#contract@1", Func: j.res.Key, Kind: "contract", Status: "undischargeable",
				Solver: "-", Model: j.res.Err, Where: "-", Detail: "contract no longer applies to the code: " + j.res.Err})
			continue
		}
		return fail(j.res.Key + ": " + j.res.Err)
	}
	jobs = kept
	// vacuity guards: preconditions + axioms of each function must not be contradictory
	{
		var wgv sync.WaitGroup
		vac := make([]string, len(jobs))
		for i, j := range jobs {
			if len(j.res.Ctx.asserts) == 0 {
				continue
			}
			wgv.Add(1)
			go func(i int, j *job) {
				defer wgv.Done()
				vac[i] = j.res.Ctx.checkSat(j.res.PrePos, "", dir, fmt.Sprintf("pre%d", i), 4)
			}(i, j)
		}
		wgv.Wait()
		for i, j := range jobs {
			if vac[i] == "unsat" {
				return fail(j.res.Key + ": preconditions/axioms are unsatisfiable (vacuous contract)")
			}
		}
	}
	// discharge
	total := 0
	var all []*Obligation
	owner := map[*Obligation]*job{}
	for _, j := range jobs {
		total += len(j.obls)
		for _, o := range j.obls {
			all = append(all, o)
			owner[o] = j
		}
	}
	var wg2 sync.WaitGroup
	sem2 := make(chan struct{}, 16)
	for i, o := range all {
		wg2.Add(1)
		sem2 <- struct{}{}
		go func(i int, o *Obligation) {
			defer wg2.Done()
			defer func() { <-sem2 }()
			discharge(owner[o].res.Ctx, o, dir, i, *tier, seed)
		}(i, o)
	}
	wg2.Wait()
	// cover checks (thorough): a return whose guard is refuted by the assumptions is unreachable; reported, since it
	// is either dead code or a sign of contradictory contracts
	var unreachable []string
	coverN := 0
	{
		var wg3 sync.WaitGroup
		var mu3 sync.Mutex
		n := 0
		for _, j := range jobs {
			for _, o := range j.covers {
				wg3.Add(1)
				sem2 <- struct{}{}
				n++
				coverN++
				go func(j *job, o *Obligation, n int) {
					defer wg3.Done()
					defer func() { <-sem2 }()
					c := j.res.Ctx
					file := filepath.Join(dir, fmt.Sprintf("cover%05d.smt2", n))
					os.WriteFile(file, []byte(c.query(o, true, false)), 0o644)
					if st, _ := runSolver(context.Background(), solvers[0], file, 10, seed); st == "unsat" {
						mu3.Lock()
						unreachable = append(unreachable, o.Name+" "+o.Where)
						mu3.Unlock()
					}
				}(j, o, n)
			}
		}
		wg3.Wait()
		sort.Strings(unreachable)
		for _, u := range unreachable {
			fmt.Printf("NOTE unreachable-return %s\n", u)
		}
	}
	// lemmas
	var lemmaObls []*Obligation
	for li, l := range lemmas {
		os2, err := dischargeLemma(P, S, l, dir, li, *tier, seed)
		if err != nil {
			return fail("lemma " + l.Name + ": " + err.Error())
		}
		lemmaObls = append(lemmaObls, os2...)
	}
	all = append(all, lemmaObls...)
	all = append(all, drift...)
	total = len(all)
	if total == 0 {
		return fail("zero obligations generated (vacuous check)")
	}

	// verdicts
	discharged := 0
	solverWins := map[string]int{}
	solverTime := 0.0
	var samples []sample
	violations := 0
	var outLines []string
	var knownHit []string
	trusted := map[string]bool{}
	var fev []funcEvidence
	for _, j := range jobs {
		fe := funcEvidence{Function: j.res.Key, Obligations: len(j.obls), Inlined: j.res.Inlined, Havocked: j.res.Havocked, Contracts: j.res.Stubs, Notes: j.res.Notes, GenS: j.genS}
		for _, o := range j.obls {
			if o.Status == "unsat" {
				fe.Discharged++
			}
		}
		for _, s := range j.res.Stubs {
			if ct := S.Contracts[s]; ct != nil && (ct.External || ct.Trusted) {
				trusted["assumed contract: "+s] = true
			} else if strings.HasPrefix(s, "axiom:") {
				trusted["axiom: "+strings.TrimPrefix(s, "axiom:")] = true
			}
		}
		for _, h := range j.res.Havocked {
			trusted["havocked call (result unconstrained, arguments' direct referents havocked): "+h] = true
		}
		fev = append(fev, fe)
	}
	sort.SliceStable(all, func(a, b int) bool { return all[a].Name < all[b].Name })
	for _, o := range all {
		solverTime += o.TimeS
		if o.Status == "unsat" {
			discharged++
			solverWins[o.Solver]++
		}
		if len(samples) < 12 || o.Status != "unsat" {
			if len(samples) < 40 {
				samples = append(samples, sample{o.Name, o.Kind, o.Where, o.Detail, o.Status, o.Solver, o.TimeS, o.SMTSize})
			}
		}
		if *verbose {
			fmt.Printf("  %-8s %s %s %s [%s %.2fs]\n", o.Status, o.Name, o.Where, o.Detail, o.Solver, o.TimeS)
		}
		if o.Status == "unsat" {
			continue
		}
		// known finding?
		isKnown := false
		for _, k := range known {
			if k.Property == prop && k.Obligation == o.Name {
				isKnown = true
				knownHit = append(knownHit, o.Name)
				outLines = append(outLines, fmt.Sprintf("KNOWN-FINDING: property=%s %s %s", prop, o.Name, k.Text))
			}
		}
		if isKnown {
			continue
		}
		violations++
		rp := writeReplay(verifDir, prop, o, repo)
		suffix := ""
		if !rp.reproduced {
			suffix = " no-failing-input-found"
		}
		outLines = append(outLines, fmt.Sprintf("VIOLATION property=%s replay=%s obligation=%s status=%s%s", prop, rp.path, o.Name, o.Status, suffix))
	}
	// a known finding that no longer fails is reported (but is not an error)
	for _, k := range known {
		if k.Property != prop {
			continue
		}
		hit := false
		for _, h := range knownHit {
			if h == k.Obligation {
				hit = true
			}
		}
		if !hit {
			outLines = append(outLines, fmt.Sprintf("NOTE: known finding %s no longer fails", k.Obligation))
		}
	}
	var tb []string
	tb = append(tb, "golang.org/x/tools go/ssa v0.29.0 (SSA construction) and govc's SSA-to-SMT translation (/verif/engine)",
		"SMT solvers: z3 5.1.0 (z3-new), cvc5 1.0.3, z3 4.8.12 — 'unsat' answers are trusted"+map[bool]string{true: "; thorough tier requires two solvers to agree", false: ""}[*tier == "thorough"],
		"Go memory safety; no unsafe/reflection/goroutines inside functions under contract unless listed in abstraction_notes")
	tb = append(tb, sortedSet(trusted)...)
	var assumptions []string
	assumptions = append(assumptions, "machine integers are modelled exactly (mathematical Int with explicit wrap-around at each operation); no arithmetic is treated as unbounded",
		"external calls without an assumed contract are havocked: result unconstrained, objects directly referenced by the arguments unconstrained, everything else unchanged",
		"contracts of in-repo callees are used instead of their bodies (modular); small callees without contract are inlined")
	assumptions = append(assumptions, sortedSet(trusted)...)
	ev := map[string]any{
		"property_id": prop,
		"tier":        *tier,
		"seed":        seed,
		"level":       "proof",
		"coverage": map[string]any{
			"obligations":                          total - len(knownHit),
			"discharged":                           discharged,
			"obligations_including_known_findings": total,
			"known_findings_hit":                   knownHit,
			"checker_cmd":                          fmt.Sprintf("/verif/bin/govc check -tier %s %s  (VC generation over go/ssa of %s, discharged by z3-new/cvc5/z3)", *tier, prop, repo),
			"trusted_base":                         tb,
			"functions_under_contract":             fev,
			"lemmas":                               len(lemmas),
			"solver_wins":                          solverWins,
			"solver_time_s":                        solverTime,
			"load_ssa_s":                           loadS,
			"samples":                              samples,
			"contract_files":                       S.Files,
			"cover_checks":                         coverN,
			"unreachable_returns":                  unreachable,
		},
		"assumptions": assumptions,
		"wall_s":      time.Since(t0).Seconds(),
		"violations":  violations,
	}
	b, _ := json.MarshalIndent(ev, "", " ")
	os.WriteFile(evPath, b, 0o644)
	for _, l := range outLines {
		fmt.Println(l)
	}
	fmt.Printf("property=%s tier=%s functions=%d obligations=%d discharged=%d known=%d violations=%d wall=%.1fs\n", prop, *tier, len(keys), total, discharged, len(knownHit), violations, time.Since(t0).Seconds())
	if violations > 0 {
		return 1
	}
	return 0
}

type replayResult struct {
	path       string
	reproduced bool
}

func writeReplay(verifDir, prop string, o *Obligation, repo string) replayResult {
	name := strings.NewReplacer("/", "_", "(", "", ")", "", "*", "", "#", "-", "[", "-", "]", "", "@", "-", ",", "_", "$", "_").Replace(strings.TrimPrefix(o.Name, modPath+"/"))
	path := filepath.Join(envOr("VERIF_EVIDENCE_DIR", filepath.Join(verifDir, "evidence")), "replay", prop+"-"+name+".json")
	model := o.Model
	if len(model) > 20000 {
		model = model[:20000] + "\n...(truncated)"
	}
	r := map[string]any{
		"property":      prop,
		"obligation":    o.Name,
		"kind":          o.Kind,
		"where":         o.Where,
		"detail":        o.Detail,
		"solver_status": o.Status,
		"solver":        o.Solver,
		"solver_output": model,
		"repo":          repo,
		"reproduced":    false,
		"note":          "the verifier's counterexample (if status is sat) is the model above; no concrete failing input was replayed on the real code for this obligation",
	}
	rep := tryReplay(verifDir, prop, o, repo, r)
	b, _ := json.MarshalIndent(r, "", " ")
	os.WriteFile(path, b, 0o644)
	return replayResult{path, rep}
}

// dischargeLemma proves a lemma over ghost vocabulary: hyps ==> goals.
func dischargeLemma(P *Program, S *Specs, l *Lemma, dir string, idx int, tier string, seed int) ([]*Obligation, error) {
	c := newCtx(P)
	c.curFunc = "lemma:" + l.Name
	x := &Exec{c: c, P: P, S: S, modsets: map[string]map[string]bool{}, inlined: map[string]bool{}, havocked: map[string]bool{}, usedStub: map[string]bool{}}
	st := c.newState()
	x.rootW0 = st.wm()
	env := &SpecEnv{x: x, c: c, st: st, old: st, vars: map[string]specVar{}, guard: "true"}
	var err error
	func() {
		defer func() {
			if r := recover(); r != nil {
				if se, ok := r.(specError); ok {
					err = fmt.Errorf("%s", se.msg)
					return
				}
				panic(r)
			}
		}()
		for _, v := range l.Vars {
			n := c.declConst("lemma/"+v[0], v[1])
			env.vars[v[0]] = specVar{sv: tv(n), sort: v[1]}
		}
		for _, ax := range S.Axioms {
			ex, e2 := parseExpr(ax.Text)
			if e2 != nil {
				panic(specError{ax.Src + ": " + e2.Error()})
			}
			c.assert(env.evalBool(ex))
		}
		for _, h := range l.Hyps {
			c.assert(env.boolClause(h))
		}
		for _, g := range l.Goals {
			c.oblige("lemma", l.Tags, "true", env.boolClause(g), g.Src, l.Name+": "+g.Text)
		}
	}()
	if err != nil {
		return nil, err
	}
	for i, o := range c.obls {
		discharge(c, o, dir, 100000+idx*100+i, tier, seed)
	}
	return c.obls, nil
}
