package main

import (
	"fmt"
	"go/constant"
	"go/types"
	"math/big"
	"os"
	"strconv"
	"strings"

	"golang.org/x/tools/go/ssa"
)

type specVar struct {
	sv   SV
	typ  types.Type
	sort string
}

type SpecEnv struct {
	x            *Exec
	c            *Ctx
	st, old      *State
	vars         map[string]specVar
	pkg          *types.Package
	guard        string
	loopHeader   *ssa.BasicBlock
	frame        *Frame
	override     map[ssa.Value]SV
	prove        bool   // clause is being proved (witness hints of exists are used), not assumed
	ghostFromOld bool   // ghost variables read their value before the call (right-hand sides of ghostsets)
	preSt        *State // loop-entry state for pre(...) inside loop invariants
	preEnv       map[ssa.Value]SV // loop-entry values of the header phis, for pre(...)
	skolem       *int   // non-nil: skolemise quantifiers in goal position (counts how many were)
	neg, mixed   bool   // polarity of the sub-expression being evaluated
	freshBase    string // watermark that fresh() is relative to (call-time watermark at a call site); "" = function entry
}

// SVal is the value of a spec expression.
type SVal struct {
	T      string
	Typ    types.Type // Go type when known
	Sort   string     // SMT sort when Typ is nil (ghost values)
	Pkg    *types.Package
	IsType types.Type
	IsNil  bool
	Fn     *FnVal
}

func (e *SpecEnv) fail(format string, a ...any) {
	panic(specError{fmt.Sprintf(format, a...)})
}

func (f *Frame) specEnv(st, old *State, override map[ssa.Value]SV) *SpecEnv {
	e := &SpecEnv{x: f.x, c: f.c(), st: st, old: old, vars: map[string]specVar{}, frame: f, override: override, guard: "true"}
	if f.fn.Pkg != nil {
		e.pkg = f.fn.Pkg.Pkg
	} else if f.fn.Object() != nil {
		e.pkg = f.fn.Object().Pkg()
	}
	for n, v := range f.params {
		e.vars[n] = specVar{sv: v, sort: f.paramSorts[n]}
	}
	for _, p := range f.fn.Params {
		if v, ok := f.env[p]; ok {
			e.vars[p.Name()] = specVar{sv: v, typ: p.Type()}
		}
	}
	for _, fv := range f.fn.FreeVars {
		if v, ok := f.env[fv]; ok {
			// a captured variable is a cell; specs name the variable itself (its current content)
			if pt, ok := fv.Type().Underlying().(*types.Pointer); ok && (v.T != "" || v.A != nil) {
				e.vars[fv.Name()] = specVar{sv: tv(f.load(st, v, pt.Elem())), typ: pt.Elem()}
			} else {
				e.vars[fv.Name()] = specVar{sv: v, typ: fv.Type()}
			}
		}
	}
	return e
}

func (e *SpecEnv) withResults(sig *types.Signature, results []SV) {
	res := sig.Results()
	for i := 0; i < res.Len() && i < len(results); i++ {
		n := res.At(i).Name()
		if n != "" && n != "_" {
			e.vars[n] = specVar{sv: results[i], typ: res.At(i).Type()}
		}
		e.vars[fmt.Sprintf("result%d", i)] = specVar{sv: results[i], typ: res.At(i).Type()}
		if i == 0 {
			e.vars["result"] = specVar{sv: results[i], typ: res.At(i).Type()}
		}
		if i == res.Len()-1 && types.Identical(res.At(i).Type(), types.Universe.Lookup("error").Type()) {
			if _, has := e.vars["err"]; !has {
				e.vars["err"] = specVar{sv: results[i], typ: res.At(i).Type()}
			}
		}
	}
}

func (e *SpecEnv) clauseExpr(cl *Clause) *Expr {
	if cl.expr == nil {
		ex, err := parseExpr(cl.Text)
		if err != nil {
			e.fail("%s: %v", cl.Src, err)
		}
		cl.expr = ex
	}
	return cl.expr
}

func (e *SpecEnv) boolClause(cl *Clause) (out string) {
	defer func() {
		if r := recover(); r != nil {
			if se, ok := r.(specError); ok && !strings.Contains(se.msg, cl.Src) {
				panic(specError{cl.Src + ": " + se.msg})
			}
			panic(r)
		}
	}()
	v := e.eval(e.clauseExpr(cl))
	if e.sortOfVal(v) != "Bool" {
		e.fail("%s: clause is not boolean: %s", cl.Src, cl.Text)
	}
	if os.Getenv("GOVC_NOSKOLEM") == "" && e.prove && e.skolem == nil && strings.Contains(v.T, "(forall ") || e.prove && e.skolem == nil && strings.Contains(v.T, "(exists ") {
		// the form that is proved has its goal-position quantifiers skolemised (solvers do not always do this
		// themselves under several connectives); the quantified form is what is assumed afterwards
		n := 0
		e2 := *e
		e2.skolem = &n
		v2 := e2.eval(e2.clauseExpr(cl))
		if n > 0 {
			e.c.skForm[e.c.simplify(v.T)] = v2.T
		}
	}
	return v.T
}

func (e *SpecEnv) flip() *SpecEnv { n := *e; n.neg = !n.neg; return &n }
func (e *SpecEnv) mix() *SpecEnv  { n := *e; n.mixed = true; return &n }

func (e *SpecEnv) intClause(cl *Clause) string {
	v := e.eval(e.clauseExpr(cl))
	if e.sortOfVal(v) != "Int" {
		e.fail("%s: clause is not an integer: %s", cl.Src, cl.Text)
	}
	return v.T
}

func (e *SpecEnv) sortOfVal(v SVal) string {
	if v.Typ != nil {
		return e.c.sortOf(v.Typ)
	}
	return v.Sort
}

func goVal(t string, typ types.Type) SVal { return SVal{T: t, Typ: typ} }
func ghostVal(t, sort string) SVal {
	if sort == "Slice" {
		// a ghost value of sort Slice is read as a byte slice (len, bytesAt, le32, s[a:b] apply to it)
		return SVal{T: t, Typ: tByteSlice}
	}
	return SVal{T: t, Sort: sort}
}

var tByteSlice = types.NewSlice(types.Typ[types.Uint8])

var tInt = types.Typ[types.Int]
var tBool = types.Typ[types.Bool]

func (e *SpecEnv) lookupLocal(name string) (SVal, bool) {
	f := e.frame
	if f == nil {
		return SVal{}, false
	}
	get := func(v ssa.Value) SV {
		if e.override != nil {
			if sv, ok := e.override[v]; ok {
				return sv
			}
		}
		if sv, ok := f.env[v]; ok {
			return sv
		}
		return SV{}
	}
	if e.loopHeader != nil {
		for _, in := range e.loopHeader.Instrs {
			if phi, ok := in.(*ssa.Phi); ok && phi.Comment == name {
				sv := get(phi)
				if sv.T != "" {
					return goVal(sv.T, phi.Type()), true
				}
			}
		}
	}
	if e.loopHeader != nil && name == "rangeindex" {
		// not a range loop itself: the range counter of the innermost enclosing range loop
		var best *ssa.Phi
		for _, b := range f.fn.Blocks {
			if b == e.loopHeader || !b.Dominates(e.loopHeader) {
				continue
			}
			for _, in := range b.Instrs {
				if phi, ok := in.(*ssa.Phi); ok && phi.Comment == name && get(phi).T != "" {
					if best == nil || best.Block().Dominates(b) {
						best = phi
					}
				}
			}
		}
		if best != nil {
			return goVal(get(best).T, best.Type()), true
		}
	}
	// address-taken local
	vsA, okA := f.debugAll["&"+name]
	if !okA {
		vsA = f.staticAllocs(name)
		okA = len(vsA) > 0
	}
	if vs, ok := vsA, okA; ok {
		for k := len(vs) - 1; k >= 0; k-- {
			v := vs[k]
			if e.dominatesHere(v) {
				sv := get(v)
				if sv.T != "" || sv.A != nil {
					t := v.Type().Underlying().(*types.Pointer).Elem()
					return goVal(f.load(e.st, sv, t), t), true
				}
			}
		}
	}
	if vs := f.staticDebug(name); len(vs) > 0 {
		for k := len(vs) - 1; k >= 0; k-- {
			v := vs[k]
			if e.dominatesHere(v) {
				sv := get(v)
				if sv.T != "" {
					return goVal(sv.T, v.Type()), true
				}
			}
		}
	}
	return SVal{}, false
}

func (e *SpecEnv) dominatesHere(v ssa.Value) bool {
	if e.loopHeader == nil {
		return true
	}
	in, ok := v.(ssa.Instruction)
	if !ok {
		return true // params, consts
	}
	b := in.Block()
	if b == nil {
		return true
	}
	if b == e.loopHeader {
		_, isPhi := v.(*ssa.Phi)
		return isPhi
	}
	return b.Dominates(e.loopHeader)
}

func parseIntLit(s string) (*big.Int, bool) {
	s = strings.ReplaceAll(s, "_", "")
	bi := new(big.Int)
	_, ok := bi.SetString(s, 0)
	return bi, ok
}

func (e *SpecEnv) eval(x *Expr) SVal {
	c := e.c
	switch x.Op {
	case "int":
		bi, ok := parseIntLit(x.Name)
		if !ok {
			e.fail("bad integer literal %s", x.Name)
		}
		return goVal(bignum(bi), tInt)
	case "str":
		s, err := strconv.Unquote(x.Name)
		if err != nil {
			e.fail("bad string literal %s", x.Name)
		}
		c.useStrings = true
		return goVal(strLit(s), types.Typ[types.String])
	case "char":
		s, _, _, err := strconv.UnquoteChar(x.Name[1:len(x.Name)-1], '\'')
		if err != nil {
			e.fail("bad char literal %s", x.Name)
		}
		return goVal(num(int64(s)), tInt)
	case "id":
		return e.ident(x.Name)
	case "sel":
		return e.selector(x)
	case "index":
		return e.index(x)
	case "slice":
		b := e.eval(x.Args[0])
		lo, hi := "0", ""
		if x.Args[1] != nil {
			lo = e.eval(x.Args[1]).T
		}
		if _, ok := b.Typ.Underlying().(*types.Slice); ok {
			if x.Args[2] != nil {
				hi = e.eval(x.Args[2]).T
			} else {
				hi = "(s.len " + b.T + ")"
			}
			return goVal(fmt.Sprintf("(mk-slice (s.ref %[1]s) (+ (s.off %[1]s) %[2]s) (- %[3]s %[2]s) (- (s.cap %[1]s) %[2]s))", b.T, lo, hi), b.Typ)
		}
		if bt, ok := b.Typ.Underlying().(*types.Basic); ok && bt.Info()&types.IsString != 0 {
			if x.Args[2] != nil {
				hi = e.eval(x.Args[2]).T
			} else {
				hi = "(str.len " + b.T + ")"
			}
			c.useStrings = true
			return goVal(fmt.Sprintf("(str.substr %s %s (- %s %s))", b.T, lo, hi, lo), b.Typ)
		}
		e.fail("slice expression on %v", b.Typ)
	case "deref":
		p := e.eval(x.Args[0])
		if p.IsType != nil {
			return SVal{IsType: types.NewPointer(p.IsType)}
		}
		pt, ok := p.Typ.Underlying().(*types.Pointer)
		if !ok {
			e.fail("deref of non-pointer")
		}
		if _, isS := pt.Elem().Underlying().(*types.Struct); isS {
			return goVal(e.loadStruct(pt.Elem(), p.T), pt.Elem())
		}
		return goVal(sel(e.st.get(c.boxHeap(pt.Elem())), p.T), pt.Elem())
	case "not":
		return goVal(not(e.flip().evalBool(x.Args[0])), tBool)
	case "neg":
		return goVal("(- "+e.eval(x.Args[0]).T+")", tInt)
	case "call":
		return e.call(x)
	case "&&":
		return goVal(and(e.evalBool(x.Args[0]), e.evalBool(x.Args[1])), tBool)
	case "||":
		return goVal(or(e.evalBool(x.Args[0]), e.evalBool(x.Args[1])), tBool)
	case "imp":
		return goVal(implies(e.flip().evalBool(x.Args[0]), e.evalBool(x.Args[1])), tBool)
	case "iff":
		return goVal(eq(e.mix().evalBool(x.Args[0]), e.mix().evalBool(x.Args[1])), tBool)
	case "==", "!=":
		a, b := e.mix().eval(x.Args[0]), e.mix().eval(x.Args[1])
		r := e.equal(a, b)
		if x.Op == "!=" {
			r = not(r)
		}
		return goVal(r, tBool)
	case "<", "<=", ">", ">=":
		a, b := e.eval(x.Args[0]), e.eval(x.Args[1])
		if e.sortOfVal(a) == "String" {
			c.useStrings = true
			switch x.Op {
			case "<":
				return goVal("(str.< "+a.T+" "+b.T+")", tBool)
			case "<=":
				return goVal("(str.<= "+a.T+" "+b.T+")", tBool)
			case ">":
				return goVal("(str.< "+b.T+" "+a.T+")", tBool)
			default:
				return goVal("(str.<= "+b.T+" "+a.T+")", tBool)
			}
		}
		return goVal("("+x.Op+" "+a.T+" "+b.T+")", tBool)
	case "+":
		a, b := e.eval(x.Args[0]), e.eval(x.Args[1])
		if e.sortOfVal(a) == "String" {
			c.useStrings = true
			if a.Typ == nil {
				return ghostVal("(str.++ "+a.T+" "+b.T+")", "String")
			}
			return goVal("(str.++ "+a.T+" "+b.T+")", a.Typ)
		}
		return goVal("(+ "+a.T+" "+b.T+")", tInt)
	case "-", "*":
		a, b := e.eval(x.Args[0]), e.eval(x.Args[1])
		return goVal("("+x.Op+" "+a.T+" "+b.T+")", tInt)
	case "/":
		a, b := e.eval(x.Args[0]), e.eval(x.Args[1])
		return goVal("(div "+a.T+" "+b.T+")", tInt)
	case "%":
		a, b := e.eval(x.Args[0]), e.eval(x.Args[1])
		return goVal("(mod "+a.T+" "+b.T+")", tInt)
	case "<<":
		a, b := e.eval(x.Args[0]), e.eval(x.Args[1])
		if k, ok := isNum(b.T); ok {
			return goVal("(* "+a.T+" "+pow2s(int(k))+")", tInt)
		}
		e.fail("<< needs a constant shift in specs")
	case ">>":
		a, b := e.eval(x.Args[0]), e.eval(x.Args[1])
		if k, ok := isNum(b.T); ok {
			return goVal("(div "+a.T+" "+pow2s(int(k))+")", tInt)
		}
		e.fail(">> needs a constant shift in specs")
	case "&":
		a, b := e.eval(x.Args[0]), e.eval(x.Args[1])
		if k, ok := lowMask(b.T); ok {
			return goVal("(mod "+a.T+" "+pow2s(k)+")", tInt)
		}
		if lo2, w, ok := fieldMask(b.T); ok {
			return goVal(fmt.Sprintf("(* (mod (div %s %s) %s) %s)", a.T, pow2s(lo2), pow2s(w), pow2s(lo2)), tInt)
		}
		return goVal("(bits.and "+a.T+" "+b.T+")", tInt)
	case "|":
		a, b := e.eval(x.Args[0]), e.eval(x.Args[1])
		return goVal("(bits.or "+a.T+" "+b.T+")", tInt)
	}
	e.fail("unsupported spec expression %s", x.String())
	return SVal{}
}

func (e *SpecEnv) evalBool(x *Expr) string {
	v := e.eval(x)
	if e.sortOfVal(v) != "Bool" {
		e.fail("expected boolean: %s", x.String())
	}
	return v.T
}

func (e *SpecEnv) equal(a, b SVal) string {
	if a.IsNil && b.IsNil {
		return "true"
	}
	if b.IsNil {
		a, b = b, a
	}
	if a.IsNil {
		if b.Fn != nil {
			return "false"
		}
		if b.Typ == nil {
			switch b.Sort {
			case "Slice":
				return "(= (s.ref " + b.T + ") 0)"
			case "Iface":
				return "(= (i.tid " + b.T + ") 0)"
			}
			return "(= " + b.T + " 0)"
		}
		switch b.Typ.Underlying().(type) {
		case *types.Slice:
			return "(= (s.ref " + b.T + ") 0)"
		case *types.Interface:
			return "(= (i.tid " + b.T + ") 0)"
		default:
			return "(= " + b.T + " 0)"
		}
	}
	if a.T == "" || b.T == "" {
		e.fail("cannot compare these values in a spec")
	}
	sa, sb := e.sortOfVal(a), e.sortOfVal(b)
	if sa != sb {
		e.fail("comparison of different sorts %s and %s (%s vs %s)", sa, sb, a.T, b.T)
	}
	if sa == "Slice" {
		e.fail("slices can only be compared with nil; use val(a) == val(b)")
	}
	return eq(a.T, b.T)
}

func (e *SpecEnv) ident(name string) SVal {
	c := e.c
	switch name {
	case "true", "false":
		return goVal(name, tBool)
	case "nil":
		return SVal{IsNil: true, T: "0"}
	}
	if e.loopHeader != nil {
		// in a loop invariant a re-assigned parameter means its current value, as any other local does
		if pv, isParam := e.vars[name]; isParam && pv.typ != nil && pv.sv.T != "" {
			if v, ok := e.lookupLocal(name); ok {
				return v
			}
		}
	}
	if v, ok := e.vars[name]; ok {
		if v.sv.Fn != nil && v.sv.T == "" {
			return SVal{Fn: v.sv.Fn, Typ: v.typ}
		}
		if v.sv.A != nil && v.sv.T == "" {
			// pointer parameter given as interior address: only usable through deref
			return SVal{T: "", Typ: v.typ}
		}
		if v.typ != nil {
			return goVal(v.sv.T, v.typ)
		}
		return ghostVal(v.sv.T, v.sort)
	}
	if v, ok := e.lookupLocal(name); ok {
		return v
	}
	if srt, ok := e.x.S.GhostVars[name]; ok {
		srt = e.x.resolveSort(srt)
		if e.ghostFromOld && e.old != nil {
			return ghostVal(e.old.get(c.ghostVar(name, srt)), srt)
		}
		return ghostVal(e.st.get(c.ghostVar(name, srt)), srt)
	}
	if name == "$alloc" || name == "alloc" {
		return ghostVal(e.st.get(c.ghostVar("$alloc", "Int")), "Int")
	}
	// universe types
	if obj := types.Universe.Lookup(name); obj != nil {
		if tn, ok := obj.(*types.TypeName); ok {
			return SVal{IsType: tn.Type()}
		}
	}
	if strings.HasPrefix(name, "[]") {
		if obj := types.Universe.Lookup(name[2:]); obj != nil {
			return SVal{IsType: types.NewSlice(obj.Type())}
		}
	}
	if e.pkg != nil {
		if obj := e.pkg.Scope().Lookup(name); obj != nil {
			return e.object(obj)
		}
		// imported package name: resolve through the files' imports
		for _, imp := range e.pkg.Imports() {
			if imp.Name() == name {
				return SVal{Pkg: imp}
			}
		}
		// aliases used in source files
		if p := e.x.importAlias(e.pkg, name); p != nil {
			return SVal{Pkg: p}
		}
	}
	if _, ok := e.x.S.Ghosts[name]; ok {
		return SVal{T: name, Sort: "ghostfn"}
	}
	// fall back to any loaded package with this name (contracts of interface methods have no package scope)
	var cand *types.Package
	n := 0
	for _, lp := range e.x.P.flat {
		if lp.Types != nil && lp.Types.Name() == name {
			if cand == nil || len(lp.PkgPath) < len(cand.Path()) {
				cand = lp.Types
			}
			n++
		}
	}
	if cand != nil {
		return SVal{Pkg: cand}
	}
	e.fail("unknown identifier %q", name)
	return SVal{}
}

func (x *Exec) importAlias(pkg *types.Package, name string) *types.Package {
	for _, p := range x.P.Pkgs {
		_ = p
	}
	var found *types.Package
	visit := func(pp interface{}) {}
	_ = visit
	for _, sp := range x.P.SSA.AllPackages() {
		if sp.Pkg != pkg {
			continue
		}
		break
	}
	// search syntax of the package for an import spec with this alias
	for _, lp := range x.P.allPackages() {
		if lp.Types != pkg {
			continue
		}
		for _, f := range lp.Syntax {
			for _, im := range f.Imports {
				path, _ := strconv.Unquote(im.Path.Value)
				if im.Name != nil && im.Name.Name == name {
					for _, ip := range pkg.Imports() {
						if ip.Path() == path {
							found = ip
						}
					}
				}
			}
		}
	}
	return found
}

func (e *SpecEnv) object(obj types.Object) SVal {
	c := e.c
	switch o := obj.(type) {
	case *types.Const:
		return e.constant(o.Val(), o.Type())
	case *types.TypeName:
		return SVal{IsType: o.Type()}
	case *types.Var:
		// package-level variable
		t := o.Type()
		pk := o.Pkg().Path()
		if sp := e.x.P.pkgs[pk]; sp != nil {
			if g, ok := sp.Members[o.Name()].(*ssa.Global); ok {
				if _, isS := t.Underlying().(*types.Struct); !isS {
					h := c.globalHeap(pk, o.Name(), t)
					e.x.globalFacts(g, h, t)
					return goVal(sel(e.st.get(h), "1"), t)
				}
			}
		}
		e.fail("unsupported package variable %s in spec", o.Name())
	case *types.Func:
		key := o.Pkg().Path() + "." + o.Name()
		return SVal{T: key, Sort: "gofunc"}
	}
	e.fail("unsupported object %v", obj)
	return SVal{}
}

func (e *SpecEnv) constant(v constant.Value, t types.Type) SVal {
	switch v.Kind() {
	case constant.Bool:
		if constant.BoolVal(v) {
			return goVal("true", t)
		}
		return goVal("false", t)
	case constant.Int:
		bi, _ := new(big.Int).SetString(v.ExactString(), 10)
		return goVal(bignum(bi), t)
	case constant.String:
		e.c.useStrings = true
		return goVal(strLit(constant.StringVal(v)), t)
	}
	e.fail("unsupported constant kind")
	return SVal{}
}

func (e *SpecEnv) loadStruct(t types.Type, ref string) string {
	c := e.c
	s := t.Underlying().(*types.Struct)
	var fs []string
	for i := 0; i < s.NumFields(); i++ {
		fs = append(fs, sel(e.st.get(c.fieldHeap(t, i)), ref))
	}
	return c.mkStruct(t, fs)
}

func findField(s *types.Struct, name string) int {
	for i := 0; i < s.NumFields(); i++ {
		if s.Field(i).Name() == name {
			return i
		}
	}
	return -1
}

func (e *SpecEnv) selector(x *Expr) SVal {
	c := e.c
	base := e.eval(x.Args[0])
	if base.Pkg != nil {
		obj := base.Pkg.Scope().Lookup(x.Name)
		if obj == nil {
			e.fail("%s.%s not found", base.Pkg.Path(), x.Name)
		}
		return e.object(obj)
	}
	if base.Typ == nil {
		e.fail("field access .%s on ghost value", x.Name)
	}
	if pt, ok := base.Typ.Underlying().(*types.Pointer); ok {
		s, ok := pt.Elem().Underlying().(*types.Struct)
		if !ok {
			e.fail("field access on pointer to non-struct")
		}
		i := findField(s, x.Name)
		if i < 0 {
			// promoted through embedded struct?
			for k := 0; k < s.NumFields(); k++ {
				if s.Field(k).Embedded() {
					if es, ok := s.Field(k).Type().Underlying().(*types.Struct); ok {
						if j := findField(es, x.Name); j >= 0 {
							inner := sel(e.st.get(c.fieldHeap(pt.Elem(), k)), base.T)
							return goVal(c.projField(s.Field(k).Type(), inner, j), es.Field(j).Type())
						}
					}
				}
			}
			e.fail("no field %s in %s", x.Name, pt.Elem())
		}
		if base.T == "" {
			// interior-address parameter
			if v, ok := e.vars[x.Args[0].Name]; ok && v.sv.A != nil {
				a := *v.sv.A
				a.Path = append(append([]pathEl{}, a.Path...), pathEl{structT: pt.Elem(), field: i})
				fr := e.frame
				if fr == nil {
					fr = e.x.root
				}
				return goVal(fr.loadAddr(e.st, &a), s.Field(i).Type())
			}
			e.fail("cannot resolve %s", x.String())
		}
		return goVal(sel(e.st.get(c.fieldHeap(pt.Elem(), i)), base.T), s.Field(i).Type())
	}
	if s, ok := base.Typ.Underlying().(*types.Struct); ok {
		i := findField(s, x.Name)
		if i < 0 {
			e.fail("no field %s in %s", x.Name, base.Typ)
		}
		return goVal(c.projField(base.Typ, base.T, i), s.Field(i).Type())
	}
	e.fail("selector .%s on %s", x.Name, base.Typ)
	return SVal{}
}

func (e *SpecEnv) index(x *Expr) SVal {
	c := e.c
	b := e.eval(x.Args[0])
	i := e.eval(x.Args[1])
	if b.Typ == nil {
		// ghost array
		if strings.HasPrefix(b.Sort, "(Array ") {
			_, r := splitArraySort(b.Sort)
			return ghostVal(sel(b.T, i.T), r)
		}
		e.fail("index on non-array ghost value")
	}
	switch u := b.Typ.Underlying().(type) {
	case *types.Slice:
		return goVal(sel(e.st.get(c.elemHeap(u.Elem())), "(s.ref "+b.T+")", "(+ (s.off "+b.T+") "+i.T+")"), u.Elem())
	case *types.Array:
		return goVal(sel(b.T, i.T), u.Elem())
	case *types.Map:
		has, val, _ := c.mapHeaps(u)
		h := and("(not (= "+b.T+" 0))", sel(e.st.get(has), b.T, i.T))
		return goVal(ite(h, sel(e.st.get(val), b.T, i.T), c.zero(u.Elem())), u.Elem())
	case *types.Basic:
		c.useStrings = true
		return goVal("(str.to_code (str.at "+b.T+" "+i.T+"))", types.Typ[types.Uint8])
	case *types.Pointer:
		if at, ok := u.Elem().Underlying().(*types.Array); ok {
			return goVal(sel(sel(e.st.get(c.boxHeap(u.Elem())), b.T), i.T), at.Elem())
		}
	}
	e.fail("index on %s", b.Typ)
	return SVal{}
}

func splitArraySort(s string) (idx, elem string) {
	// "(Array K V)"
	inner := strings.TrimSuffix(strings.TrimPrefix(s, "(Array "), ")")
	d := 0
	for i, r := range inner {
		switch r {
		case '(':
			d++
		case ')':
			d--
		case ' ':
			if d == 0 {
				return inner[:i], inner[i+1:]
			}
		}
	}
	return inner, ""
}

func (e *SpecEnv) withState(st *State) *SpecEnv {
	n := *e
	n.st = st
	return &n
}

func (e *SpecEnv) bind(name string, v specVar) *SpecEnv {
	n := *e
	n.vars = map[string]specVar{}
	for k, vv := range e.vars {
		n.vars[k] = vv
	}
	n.vars[name] = v
	return &n
}

func (e *SpecEnv) call(x *Expr) SVal {
	c := e.c
	fn := x.Args[0]
	if fn.Op != "id" || (fn.Name != "old" && fn.Name != "pre" && fn.Name != "preheap" && fn.Name != "forall" && fn.Name != "forallq" && fn.Name != "exists") {
		_, isDef := e.x.S.Defs[fn.Name]
		if !(fn.Op == "id" && isDef && e.x.S.Defs[fn.Name].Ret == "Bool") {
			e = e.mix()
		}
	}
	args := x.Args[1:]
	if fn.Op == "id" {
		switch fn.Name {
		case "old":
			return e.withState(e.old).eval(args[0])
		case "len":
			a := e.eval(args[0])
			if a.Typ == nil {
				switch a.Sort {
				case "String":
					c.useStrings = true
					return goVal("(str.len "+a.T+")", tInt)
				case "BV":
					return goVal("(bv.len "+a.T+")", tInt)
				}
				e.fail("len of ghost value")
			}
			switch u := a.Typ.Underlying().(type) {
			case *types.Slice:
				return goVal("(s.len "+a.T+")", tInt)
			case *types.Basic:
				c.useStrings = true
				return goVal("(str.len "+a.T+")", tInt)
			case *types.Array:
				return goVal(num(u.Len()), tInt)
			case *types.Map:
				_, _, ln := c.mapHeaps(u)
				return goVal(ite("(= "+a.T+" 0)", "0", sel(e.st.get(ln), a.T)), tInt)
			}
			e.fail("len of %s", a.Typ)
		case "cap":
			a := e.eval(args[0])
			return goVal("(s.cap "+a.T+")", tInt)
		case "val":
			a := e.eval(args[0])
			if a.Typ != nil {
				switch u := a.Typ.Underlying().(type) {
				case *types.Slice:
					return ghostVal(app("bv.of", sel(e.st.get(c.elemHeap(u.Elem())), "(s.ref "+a.T+")"), "(s.off "+a.T+")", "(s.len "+a.T+")"), "BV")
				case *types.Basic:
					c.useStrings = true
					return ghostVal(app("bv.ofstr", a.T), "BV")
				case *types.Array:
					return ghostVal(app("bv.of", a.T, "0", num(u.Len())), "BV")
				}
			}
			e.fail("val() of unsupported value")
		case "has":
			m := e.eval(args[0])
			k := e.eval(args[1])
			mt, ok := m.Typ.Underlying().(*types.Map)
			if !ok {
				e.fail("has() needs a map")
			}
			has, _, _ := c.mapHeaps(mt)
			return goVal(and("(not (= "+m.T+" 0))", sel(e.st.get(has), m.T, k.T)), tBool)
		case "forall", "exists", "forallq":
			// forall(i, body)  |  forall(i, "Sort" or type, body)
			if len(args) < 2 || args[0].Op != "id" {
				e.fail("%s(i, body)", fn.Name)
			}
			noExpand := fn.Name == "forallq" // forallq: a forall that is never expanded into a finite conjunction
			if noExpand {
				fn = &Expr{Op: "id", Name: "forall"}
			}
			name := args[0].Name
			srt := "Int"
			var typ types.Type = tInt
			body := args[1]
			var witness *Expr
			if len(args) == 4 {
				witness = args[3]
				args = args[:3]
			}
			ghostSort := false
			if len(args) == 3 {
				if args[1].Op == "id" && (args[1].Name == "BV" || args[1].Name == "Int" || args[1].Name == "Bool" || args[1].Name == "String") {
					srt, typ, ghostSort = args[1].Name, nil, true
					if srt == "String" {
						c.useStrings = true
					}
				} else {
					tv := e.eval(args[1])
					if tv.IsType != nil {
						typ = tv.IsType
						srt = c.sortOf(typ)
					} else {
						e.fail("quantifier type")
					}
				}
				body = args[2]
			}
			if witness != nil && fn.Name == "exists" && e.prove {
				// proving an existential with a named witness: prove the instance
				w := e.eval(witness)
				if w.T != "" {
					ne := e.bind(name, specVar{sv: tv(w.T), typ: typ, sort: srt})
					return goVal(ne.evalBool(body), tBool)
				}
			}
			if fn.Name == "forall" && !noExpand && srt == "Int" && body.Op == "imp" {
				// forall(i, c1 <= i && i < c2 ==> B) with a small constant range is a finite conjunction
				if lo, hi, ok := e.constRange(body.Args[0], name); ok && hi-lo <= 128 {
					var parts []string
					for k := lo; k < hi; k++ {
						ne := e.bind(name, specVar{sv: tv(num(k)), typ: typ, sort: srt})
						parts = append(parts, ne.evalBool(body.Args[1]))
					}
					return goVal(and(parts...), tBool)
				}
			}
			if e.skolem != nil && !e.mixed && ((fn.Name == "forall" && !e.neg) || (fn.Name == "exists" && e.neg)) {
				*e.skolem++
				sk := c.freshConst("sk_"+name, srt)
				ne := e.bind(name, specVar{sv: tv(sk), typ: typ, sort: srt})
				b := ne.evalBool(body)
				if typ != tInt && !ghostSort {
					rng := c.wf(typ, sk, e.st.wm())
					if fn.Name == "forall" {
						b = implies(rng, b)
					} else {
						b = and(rng, b)
					}
				}
				return goVal(b, tBool)
			}
			bn := c.freshName("q_" + name)
			ne := e.bind(name, specVar{sv: tv(qsym(bn)), typ: typ, sort: srt})
			b := ne.evalBool(body)
			c.quant = true
			if typ != tInt && !ghostSort {
				// typed bound variable ranges over well-formed values of its type
				rng := c.wf(typ, qsym(bn), e.st.wm())
				if fn.Name == "forall" {
					b = implies(rng, b)
				} else {
					b = and(rng, b)
				}
			}
			if srt == "Int" && os.Getenv("GOVC_NOSHIFT") == "" {
				jn := qsym(c.freshName("j_" + name))
				if nb, pats, ok := shiftQuant(b, qsym(bn), jn); ok {
					// one multi-pattern per read keeps every read a sufficient trigger
					var ps []string
					for _, p := range pats {
						ps = append(ps, ":pattern ("+p+")")
					}
					return goVal(fmt.Sprintf("(%s ((%s Int)) (! %s %s))", fn.Name, jn, nb, strings.Join(ps, " ")), tBool)
				}
			}
			return goVal(fmt.Sprintf("(%s ((%s %s)) %s)", fn.Name, qsym(bn), srt, b), tBool)
		case "fresh":
			a := e.eval(args[0])
			ref := a.T
			if a.Typ != nil {
				switch a.Typ.Underlying().(type) {
				case *types.Slice:
					ref = "(s.ref " + a.T + ")"
				case *types.Interface:
					ref = "(i.ref " + a.T + ")"
				}
			}
			base := e.x.rootW0
			if e.freshBase != "" {
				base = e.freshBase
			}
			return goVal("(>= "+ref+" "+base+")", tBool)
		case "loopfresh":
			// allocated since the entry of the loop whose invariant this is
			if e.preSt == nil {
				e.fail("loopfresh() outside a loop invariant")
			}
			a := e.eval(args[0])
			ref := a.T
			if a.Typ != nil {
				switch a.Typ.Underlying().(type) {
				case *types.Slice:
					ref = "(s.ref " + a.T + ")"
				case *types.Interface:
					ref = "(i.ref " + a.T + ")"
				}
			}
			return goVal("(>= "+ref+" "+e.preSt.wm()+")", tBool)
		case "ite":
			cnd := e.evalBool(args[0])
			a, b := e.eval(args[1]), e.eval(args[2])
			r := a
			r.T = ite(cnd, a.T, b.T)
			return r
		case "tid":
			a := e.eval(args[0])
			return goVal("(i.tid "+a.T+")", tInt)
		case "ref":
			a := e.eval(args[0])
			if a.Typ != nil {
				switch a.Typ.Underlying().(type) {
				case *types.Slice:
					return goVal("(s.ref "+a.T+")", tInt)
				case *types.Interface:
					return goVal("(i.ref "+a.T+")", tInt)
				}
			}
			return goVal(a.T, tInt)
		case "off":
			a := e.eval(args[0])
			return goVal("(s.off "+a.T+")", tInt)
		case "bvat":
			// bvat(b, i): byte i of the byte-string value b
			a, i := e.eval(args[0]), e.eval(args[1])
			if e.sortOfVal(a) != "BV" {
				e.fail("bvat needs a byte-string value (use val(...))")
			}
			return goVal("(bv.at "+a.T+" "+i.T+")", tInt)
		case "sha256", "sha384", "sha512":
			a := e.eval(args[0])
			if e.sortOfVal(a) != "BV" {
				e.fail("%s needs a byte-string value (use val(...))", fn.Name)
			}
			n := map[string]int{"sha256": 32, "sha384": 48, "sha512": 64}[fn.Name]
			hf := c.declFun("hash:"+fn.Name, []string{"BV"}, "(Array Int Int)")
			return ghostVal(app("bv.of", app(hf, a.T), "0", num(int64(n))), "BV")
		case "istype":
			a := e.eval(args[0])
			t := e.eval(args[1])
			if t.IsType == nil {
				e.fail("istype(x, Type)")
			}
			return goVal(fmt.Sprintf("(= (i.tid %s) %d)", a.T, c.typeID(t.IsType)), tBool)
		case "dyn":
			// dyn(x, *T): the *T held by interface value x, or nil when x holds something else
			a := e.eval(args[0])
			t := e.eval(args[1])
			if t.IsType == nil {
				e.fail("dyn(x, Type)")
			}
			if _, ok := t.IsType.Underlying().(*types.Pointer); !ok {
				// a non-pointer dynamic value is boxed by an injective function (see makeInterface): unbox it; the
				// result is only meaningful when istype(x, T) holds
				srt := c.sortOf(t.IsType)
				c.declFun("box:"+typeKey(t.IsType), []string{srt}, "Int")
				ub := c.declFun("unbox:"+typeKey(t.IsType), []string{"Int"}, srt)
				return goVal(app(ub, "(i.ref "+a.T+")"), t.IsType)
			}
			return goVal(ite(fmt.Sprintf("(= (i.tid %s) %d)", a.T, c.typeID(t.IsType)), "(i.ref "+a.T+")", "0"), t.IsType)
		case "contains", "hasprefix", "hassuffix":
			a, b := e.eval(args[0]), e.eval(args[1])
			c.useStrings = true
			op := map[string]string{"contains": "str.contains", "hasprefix": "str.prefixof", "hassuffix": "str.suffixof"}[fn.Name]
			if fn.Name == "contains" {
				return goVal("("+op+" "+a.T+" "+b.T+")", tBool)
			}
			return goVal("("+op+" "+b.T+" "+a.T+")", tBool)
		case "bvlen":
			a := e.eval(args[0])
			return goVal("(bv.len "+a.T+")", tInt)
		case "store":
			a, i, v := e.eval(args[0]), e.eval(args[1]), e.eval(args[2])
			r := a
			r.T = sto(a.T, i.T, v.T)
			return r
		case "same":
			// same(a, b): identical slice headers / identical values
			a, b := e.eval(args[0]), e.eval(args[1])
			if a.IsNil {
				a.T = c.zero(b.Typ)
			}
			if b.IsNil {
				b.T = c.zero(a.Typ)
			}
			return goVal(eq(a.T, b.T), tBool)
		case "pre":
			// pre(e): e evaluated in the heap as it was when the loop was first entered (loop invariants only)
			if e.preSt == nil {
				e.fail("pre(...) is only meaningful in a loop invariant")
			}
			pe := e.withState(e.preSt)
			if e.preEnv != nil {
				pe.override = e.preEnv
			}
			return pe.eval(args[0])
		case "preheap":
			// preheap(e): like pre(e), but loop variables keep their current values (only the heap is the loop-entry one)
			if e.preSt == nil {
				e.fail("preheap(...) is only meaningful in a loop invariant")
			}
			return e.withState(e.preSt).eval(args[0])
		case "visited":
			// visited(k): key k has already been yielded by the map iteration of the loop this invariant belongs to
			if e.loopHeader == nil || e.frame == nil {
				e.fail("visited(k) is only meaningful in the invariant of a loop that ranges over a map")
			}
			var it *Iter
			body := e.frame.loopBody[e.loopHeader]
			for b := range body {
				for _, in := range b.Instrs {
					if nx, ok := in.(*ssa.Next); ok {
						if sv, ok := e.frame.env[nx.Iter]; ok && sv.It != nil {
							it = sv.It
						}
					}
				}
			}
			if it == nil {
				for _, in := range e.loopHeader.Instrs {
					if nx, ok := in.(*ssa.Next); ok {
						if sv, ok := e.frame.env[nx.Iter]; ok && sv.It != nil {
							it = sv.It
						}
					}
				}
			}
			if it == nil {
				e.fail("visited(k): no map iteration found for this loop")
			}
			k := e.eval(args[0])
			return goVal(sel(e.st.get(it.visited), k.T), tBool)
		case "content":
			// content(s): the whole backing array of slice s (use unchanged(content(s)) for "no byte of it was written")
			a := e.eval(args[0])
			u, ok := a.Typ.Underlying().(*types.Slice)
			if !ok {
				e.fail("content needs a slice")
			}
			return ghostVal(sel(e.st.get(c.elemHeap(u.Elem())), "(s.ref "+a.T+")"), "(Array Int "+c.sortOf(u.Elem())+")")
		case "unchanged":
			a := e.eval(args[0])
			b := e.withState(e.old).eval(args[0])
			return goVal(eq(a.T, b.T), tBool)
		case "bytesAt":
			// bytesAt(s, i): element i of byte slice s as Int
			a := e.eval(args[0])
			i := e.eval(args[1])
			u := a.Typ.Underlying().(*types.Slice)
			return goVal(sel(e.st.get(c.elemHeap(u.Elem())), "(s.ref "+a.T+")", "(+ (s.off "+a.T+") "+i.T+")"), tInt)
		case "le16", "le32", "le64", "be16", "be32", "be64":
			// le32(s, off): little-endian integer read from byte slice s at offset off
			a := e.eval(args[0])
			off := e.eval(args[1])
			n := map[string]int{"16": 2, "32": 4, "64": 8}[fn.Name[2:]]
			u, ok := a.Typ.Underlying().(*types.Slice)
			var at func(k int) string
			if ok {
				arr := sel(e.st.get(c.elemHeap(u.Elem())), "(s.ref "+a.T+")")
				at = func(k int) string { return sel(arr, fmt.Sprintf("(+ (s.off %s) %s %d)", a.T, off.T, k)) }
			} else if _, ok := a.Typ.Underlying().(*types.Array); ok {
				at = func(k int) string { return sel(a.T, fmt.Sprintf("(+ %s %d)", off.T, k)) }
			} else {
				e.fail("%s needs a byte slice or array", fn.Name)
			}
			var parts []string
			for k := 0; k < n; k++ {
				sh := k
				if fn.Name[0] == 'b' {
					sh = n - 1 - k
				}
				parts = append(parts, fmt.Sprintf("(* %s %s)", pow2s(8*sh), at(k)))
			}
			return goVal("(+ "+strings.Join(parts, " ")+")", tInt)
		}
		if fn.Name == "pb" {
			// pb("Message.Field", bytes): the value protobuf decoding gives that field for these bytes
			if len(args) != 2 || args[0].Op != "str" {
				e.fail("pb(\"Message.Field\", val(bytes))")
			}
			name, _ := strconv.Unquote(args[0].Name)
			b := e.eval(args[1])
			if e.sortOfVal(b) != "BV" {
				e.fail("pb: second argument must be a byte-string value (use val(...))")
			}
			fnm, srt, typ, err := e.x.pbField(name)
			if err != nil {
				e.fail("%v", err)
			}
			if srt == "BV" {
				return ghostVal(app(fnm, b.T), "BV")
			}
			return goVal(app(fnm, b.T), typ)
		}
		if d, ok := e.x.S.Defs[fn.Name]; ok {
			if len(args) != len(d.Params) {
				e.fail("%s expects %d arguments", d.Name, len(d.Params))
			}
			ne := &SpecEnv{x: e.x, c: e.c, st: e.st, old: e.old, vars: map[string]specVar{}, pkg: e.pkg, guard: e.guard, freshBase: e.freshBase,
				prove: e.prove, skolem: e.skolem, neg: e.neg, mixed: e.mixed}
			for i, a := range args {
				v := e.mix().eval(a)
				var want string
				var gt types.Type
				if isGoTypeSpec(d.Params[i][1]) {
					gt = e.x.resolveType(d.Params[i][1])
					want = e.c.sortOf(gt)
				} else {
					want = e.x.resolveSort(d.Params[i][1])
				}
				got := e.sortOfVal(v)
				if v.IsNil {
					got = want
				}
				if got != want {
					e.fail("%s: argument %d has sort %s, want %s", d.Name, i, got, want)
				}
				ne.vars[d.Params[i][0]] = specVar{sv: tv(v.T), sort: want, typ: gt}
			}
			if d.expr == nil {
				ex, err := parseExpr(d.Body)
				if err != nil {
					e.fail("%s: %v", d.Src, err)
				}
				d.expr = ex
			}
			r := ne.eval(d.expr)
			return ghostVal(r.T, e.x.resolveSort(d.Ret))
		}
		// ghost function
		if g, ok := e.x.S.Ghosts[fn.Name]; ok {
			if len(args) != len(g.Args) {
				e.fail("ghost %s expects %d arguments", g.Name, len(g.Args))
			}
			var as []string
			var rs []string
			for i, a := range args {
				v := e.eval(a)
				want := e.x.resolveSort(g.Args[i])
				rs = append(rs, want)
				got := e.sortOfVal(v)
				if v.IsNil {
					got = want
					v.T = nilOfSort(want)
				}
				if got != want {
					e.fail("ghost %s argument %d has sort %s, want %s", g.Name, i, got, want)
				}
				as = append(as, v.T)
			}
			ret := e.x.resolveSort(g.Ret)
			fnm := c.declFun("ghost:"+g.Name, rs, ret)
			if ret != g.Ret {
				if isGoTypeSpec(g.Ret) {
					return goVal(app(fnm, as...), e.x.resolveType(g.Ret))
				}
				return ghostVal(app(fnm, as...), ret)
			}
			if g.Ret == "String" || contains(g.Args, "String") {
				c.useStrings = true
			}
			return ghostVal(app(fnm, as...), g.Ret)
		}
	}
	// conversion or Go function
	f := e.eval(fn)
	if f.IsType != nil {
		a := e.eval(args[0])
		to := f.IsType
		if tb, ts, ok := intInfo(to); ok {
			if _, _, ok2 := intInfo(orInt(a.Typ)); ok2 {
				return goVal(wrap(a.T, tb, ts), to)
			}
		}
		if c.sortOf(to) == e.sortOfVal(a) {
			return goVal(a.T, to)
		}
		if tb, ok := to.Underlying().(*types.Basic); ok && tb.Info()&types.IsString != 0 {
			if _, ok := a.Typ.Underlying().(*types.Slice); ok {
				c.useStrings = true
				return goVal(app("bv.tostr", e.eval(&Expr{Op: "call", Args: []*Expr{{Op: "id", Name: "val"}, args[0]}}).T), to)
			}
		}
		e.fail("unsupported conversion to %s", to)
	}
	if f.Sort == "gofunc" {
		key := f.T
		ct := e.x.S.Contracts[key]
		if ct == nil || ct.Flags["pure"] == "" {
			e.fail("Go function %s used in a spec must have a contract marked pure", key)
		}
		gf := e.x.P.lookupFunc(key)
		if gf == nil {
			e.fail("function %s not found", key)
		}
		var as, sorts []string
		for i, a := range args {
			v := e.eval(a)
			as = append(as, v.T)
			sorts = append(sorts, c.sortOf(gf.Params[i].Type()))
		}
		fnm := c.declFun(fmt.Sprintf("pure:%s#0", key), sorts, c.sortOf(gf.Signature.Results().At(0).Type()))
		return goVal(app(fnm, as...), gf.Signature.Results().At(0).Type())
	}
	e.fail("unsupported call %s", x.String())
	return SVal{}
}

func orInt(t types.Type) types.Type {
	if t == nil {
		return tInt
	}
	return t
}

func contains(xs []string, s string) bool {
	for _, x := range xs {
		if x == s {
			return true
		}
	}
	return false
}

// assignTarget resolves one element of an assigns clause.
func (e *SpecEnv) assignTarget(part string) ([]assignTarget, error) {
	c := e.c
	var out []assignTarget
	star, toCap := false, false
	if strings.HasSuffix(part, ".*") {
		star = true
		part = strings.TrimSuffix(part, ".*")
	} else if strings.HasSuffix(part, "[*cap]") {
		// s[*cap]: the elements of s and the spare capacity behind them (what an in-place append writes)
		star, toCap = true, true
		part = strings.TrimSuffix(part, "[*cap]")
	} else if strings.HasSuffix(part, "[*]") {
		star = true
		part = strings.TrimSuffix(part, "[*]")
	} else if strings.HasPrefix(part, "*") {
		star = true
		part = strings.TrimPrefix(part, "*")
	}
	if !star && e.frame != nil && isIdent(part) {
		// a local variable that lives in memory (captured by a closure or address-taken): its cell
		vs := e.frame.debugAll["&"+part]
		if len(vs) == 0 {
			vs = e.frame.staticAllocs(part)
		}
		if len(vs) > 0 {
			v := vs[len(vs)-1]
			sv, ok := e.frame.env[v]
			if e.override != nil {
				if o, ok2 := e.override[v]; ok2 {
					sv, ok = o, true
				}
			}
			if ok && sv.T != "" {
				t := v.Type().Underlying().(*types.Pointer).Elem()
				if st, isS := t.Underlying().(*types.Struct); isS {
					for i := 0; i < st.NumFields(); i++ {
						out = append(out, assignTarget{heap: c.fieldHeap(t, i), ref: sv.T})
					}
					return out, nil
				}
				return []assignTarget{{heap: c.boxHeap(t), ref: sv.T}}, nil
			}
		}
	}
	ex, err := parseExpr(part)
	if err != nil {
		return nil, err
	}
	if !star {
		if ex.Op != "sel" {
			return nil, fmt.Errorf("assigns target must be p.f, p.*, s[*] or *p")
		}
		base := e.eval(ex.Args[0])
		pt, ok := base.Typ.Underlying().(*types.Pointer)
		if !ok {
			return nil, fmt.Errorf("assigns %s: base is not a pointer", part)
		}
		s := pt.Elem().Underlying().(*types.Struct)
		i := findField(s, ex.Name)
		if i < 0 {
			return nil, fmt.Errorf("no field %s", ex.Name)
		}
		return []assignTarget{{heap: c.fieldHeap(pt.Elem(), i), ref: base.T}}, nil
	}
	if ex.Op == "id" {
		if sv, ok := e.vars[ex.Name]; ok && sv.sv.Dyn != nil && sv.sv.DynV != nil && sv.sv.DynV.T != "" {
			// interface-typed parameter whose dynamic type is known at this call site
			if pt, ok := sv.sv.Dyn.Underlying().(*types.Pointer); ok {
				if s, ok := pt.Elem().Underlying().(*types.Struct); ok {
					for i := 0; i < s.NumFields(); i++ {
						out = append(out, assignTarget{heap: c.fieldHeap(pt.Elem(), i), ref: sv.sv.DynV.T})
					}
					return out, nil
				}
			}
		}
	}
	v := e.eval(ex)
	if _, isI := v.Typ.Underlying().(*types.Interface); isI {
		return nil, nil // unknown dynamic type: nothing nameable (listed as abstraction)
	}
	switch u := v.Typ.Underlying().(type) {
	case *types.Pointer:
		if s, ok := u.Elem().Underlying().(*types.Struct); ok {
			for i := 0; i < s.NumFields(); i++ {
				out = append(out, assignTarget{heap: c.fieldHeap(u.Elem(), i), ref: v.T})
			}
		} else {
			out = append(out, assignTarget{heap: c.boxHeap(u.Elem()), ref: v.T})
		}
	case *types.Slice:
		ext := c.sLen(v.T)
		if toCap {
			ext = c.sCap(v.T)
		}
		out = append(out, assignTarget{heap: c.elemHeap(u.Elem()), ref: c.sRef(v.T), lo: c.sOff(v.T), hi: c.simplify("(+ " + c.sOff(v.T) + " " + ext + ")")})
	case *types.Map:
		has, val, ln := c.mapHeaps(u)
		out = append(out, assignTarget{heap: has, ref: v.T}, assignTarget{heap: val, ref: v.T}, assignTarget{heap: ln, ref: v.T})
	default:
		return nil, fmt.Errorf("assigns %s: unsupported type %s", part, v.Typ)
	}
	return out, nil
}

// resolveSort maps a sort written in a spec file to an SMT sort; "go:pkg/path.Type" names the sort of
// a Go type.
func (x *Exec) resolveSort(s string) string {
	if !strings.Contains(s, "go:") {
		return s
	}
	return x.c.sortOf(x.resolveType(s))
}

// resolveType parses "go:pkg/path.Type", "*go:pkg/path.Type", "[]go:..." into a Go type.
func (x *Exec) resolveType(s string) types.Type {
	if strings.HasPrefix(s, "*") {
		return types.NewPointer(x.resolveType(s[1:]))
	}
	if strings.HasPrefix(s, "[]") {
		return types.NewSlice(x.resolveType(s[2:]))
	}
	if !strings.HasPrefix(s, "go:") {
		if obj := types.Universe.Lookup(s); obj != nil {
			return obj.Type()
		}
		panic(specError{"bad type " + s})
	}
	name := strings.TrimPrefix(s, "go:")
	i := strings.LastIndex(name, ".")
	if i < 0 {
		panic(specError{"bad go: sort " + s})
	}
	pk, tn := name[:i], name[i+1:]
	for _, lp := range x.P.flat {
		if lp.PkgPath == pk && lp.Types != nil {
			if obj := lp.Types.Scope().Lookup(tn); obj != nil {
				return obj.Type()
			}
		}
	}
	panic(specError{"unknown Go type in sort " + s})
}

// pbField returns the uninterpreted decode function of a protobuf message field.
func (x *Exec) pbField(name string) (fn, sort string, typ types.Type, err error) {
	i := strings.Index(name, ".")
	if i < 0 {
		return "", "", nil, fmt.Errorf("pb: want Message.Field, got %q", name)
	}
	mt, fld := name[:i], name[i+1:]
	var st types.Type
	for _, lp := range x.P.flat {
		if lp.Types == nil || !strings.Contains(lp.PkgPath, "proto") {
			continue
		}
		if obj := lp.Types.Scope().Lookup(mt); obj != nil {
			if _, ok := obj.Type().Underlying().(*types.Struct); ok {
				st = obj.Type()
				break
			}
		}
	}
	if st == nil {
		return "", "", nil, fmt.Errorf("pb: message type %s not found", mt)
	}
	s := st.Underlying().(*types.Struct)
	k := findField(s, fld)
	if k < 0 {
		return "", "", nil, fmt.Errorf("pb: no field %s in %s", fld, mt)
	}
	fn, sort = x.pbFieldFn(st, k)
	return fn, sort, s.Field(k).Type(), nil
}

func (x *Exec) pbFieldFn(st types.Type, k int) (fn, sort string) {
	s := st.Underlying().(*types.Struct)
	ft := s.Field(k).Type()
	sort = x.c.sortOf(ft)
	if sl, ok := ft.Underlying().(*types.Slice); ok {
		if b, ok := sl.Elem().Underlying().(*types.Basic); ok && b.Kind() == types.Uint8 {
			sort = "BV"
		}
	}
	fn = x.c.declFun("pb:"+typeKey(st)+"."+s.Field(k).Name(), []string{"BV"}, sort)
	return
}

func isGoTypeSpec(s string) bool {
	switch s {
	case "Int", "Bool", "BV", "String", "Slice", "Iface", "Float":
		return false
	}
	if strings.HasPrefix(s, "(") {
		return false
	}
	return true
}

// ghostSets performs the contract's ghost assignments (evaluated in env's state) on st.
func (e *SpecEnv) ghostSets(ct *Contract, st *State, guard string) {
	// the right-hand sides read ghost variables as they were before the call (a `modifies` clause of the same
	// contract has already given them unknown values in the current state); results and memory are post-call
	e2 := *e
	e2.ghostFromOld = true
	e = &e2
	for _, gs := range ct.GhostSets {
		i := strings.Index(gs.Text, "=")
		if i < 0 {
			e.fail("%s: ghostset needs 'name = expr'", gs.Src)
		}
		name := strings.TrimSpace(gs.Text[:i])
		srt, ok := e.x.S.GhostVars[name]
		if !ok {
			e.fail("%s: unknown ghost variable %s", gs.Src, name)
		}
		srt = e.x.resolveSort(srt)
		ex, err := parseExpr(strings.TrimSpace(gs.Text[i+1:]))
		if err != nil {
			e.fail("%s: %v", gs.Src, err)
		}
		v := e.eval(ex)
		if v.IsNil {
			v.T = "0"
		}
		h := e.c.ghostVar(name, srt)
		st.heap[h] = ite(guard, v.T, st.get(h))
	}
}

func nilOfSort(s string) string {
	switch s {
	case "Slice":
		return "(mk-slice 0 0 0 0)"
	case "Iface":
		return "(mk-iface 0 0)"
	}
	return "0"
}

// constRange recognises `c1 <= i && i < c2` (also `c1 < i`, `i <= c2`) where c1, c2 evaluate to integer
// numerals in env e, and returns the half-open range [lo, hi) of i.
func (e *SpecEnv) constRange(g *Expr, name string) (lo, hi int64, ok bool) {
	if g.Op != "&&" || len(g.Args) != 2 {
		return 0, 0, false
	}
	var mentions func(x *Expr) bool
	mentions = func(x *Expr) bool {
		if x == nil {
			return false
		}
		if x.Op == "id" && x.Name == name {
			return true
		}
		for _, a := range x.Args {
			if mentions(a) {
				return true
			}
		}
		return false
	}
	lit := func(x *Expr) (n int64, ok bool) {
		if mentions(x) || (x.Op != "int" && x.Op != "id") {
			return 0, false
		}
		defer func() {
			if recover() != nil {
				ok = false
			}
		}()
		return isNum(e.c.simplify(e.eval(x).T))
	}
	isVar := func(x *Expr) bool { return x.Op == "id" && x.Name == name }
	a, b := g.Args[0], g.Args[1]
	if len(a.Args) != 2 || len(b.Args) != 2 {
		return 0, 0, false
	}
	if !isVar(a.Args[1]) || (a.Op != "<=" && a.Op != "<") || !isVar(b.Args[0]) || (b.Op != "<=" && b.Op != "<") {
		return 0, 0, false
	}
	n, k := lit(a.Args[0])
	if !k {
		return 0, 0, false
	}
	lo = n
	if a.Op == "<" {
		lo++
	}
	n, k = lit(b.Args[1])
	if !k {
		return 0, 0, false
	}
	hi = n
	if b.Op == "<=" {
		hi++
	}
	return lo, hi, true
}

// staticDebug lists, in block order, the values that go/ssa's DebugRef instructions bind to source name
// `name` anywhere in the function (so that a re-assigned parameter or variable resolves to its latest value that
// dominates the point of use, even when the uses that mention it come later in the code).
func (f *Frame) staticDebug(name string) []ssa.Value {
	if f.debugStatic == nil {
		f.debugStatic = map[string][]ssa.Value{}
		for _, b := range f.fn.Blocks {
			for _, in := range b.Instrs {
				if d, ok := in.(*ssa.DebugRef); ok && !d.IsAddr {
					if obj := d.Object(); obj != nil {
						f.debugStatic[obj.Name()] = append(f.debugStatic[obj.Name()], d.X)
					}
				}
			}
		}
	}
	return f.debugStatic[name]
}

func isIdent(s string) bool {
	if s == "" {
		return false
	}
	for i, r := range s {
		if !(r == '_' || r >= 'a' && r <= 'z' || r >= 'A' && r <= 'Z' || (i > 0 && r >= '0' && r <= '9')) {
			return false
		}
	}
	return true
}

// staticAllocs finds the memory cells of the named local (ssa.Alloc carries the source name as its comment) that have
// already been executed; used when the DebugRef that binds the name lies inside a loop whose head is being specified.
func (f *Frame) staticAllocs(name string) []ssa.Value {
	var out []ssa.Value
	for _, b := range f.fn.Blocks {
		for _, in := range b.Instrs {
			if a, ok := in.(*ssa.Alloc); ok && a.Comment == name {
				if sv, ok := f.env[a]; ok && (sv.T != "" || sv.A != nil) {
					out = append(out, a)
				}
			}
		}
	}
	return out
}
