package main

import (
	"os"
	"fmt"
	"go/types"
	"math/big"
	"regexp"
	"sort"
	"strings"
)

// ---------------------------------------------------------------------------------------------
// SMT context: declarations, ordered assertions, obligations.

type Obligation struct {
	Name   string   // pkg.Func#kind[tag]@ordinal
	Func   string   // function under contract
	Kind   string   // index, slice, nil, div, panic, requires, ensures, invariant-entry, ...
	Tags   []string // property tags
	Pos    int      // number of assertions that precede it
	Guard  string   // reach condition
	Goal   string
	Where  string // source position
	Detail string
	// results
	Status  string // unsat | sat | unknown | timeout | error
	Solver  string
	TimeS   float64
	Model   string
	SMTSize int
	Reveal  []string // labels of opaque assumptions this obligation may use (clause tag use:<label>)
}

type Ctx struct {
	opaque    map[int]string // assertion index -> label: assumed clause tagged opaque:<label>, visible only to obligations tagged use:<label>
	curOpaque string
	P        *Program
	decls    []string
	declared map[string]bool
	asserts  []string
	obls     []*Obligation
	sorts    map[string]string // canonical Go type string -> SMT sort
	structs  map[string]*types.Struct
	heapSort map[string]string // heap name -> sort
	typeIDs  map[string]int
	typeByID []types.Type
	fresh    int
	notes    map[string]bool // abstraction notes (havocked calls etc.)
	ordinals map[string]int
	curFunc  string // key of function under contract being verified
	discard  bool   // discovery mode: obligations are not recorded
	strLits  map[string]bool
	useStrings bool
	quant    bool
	nonzero  map[string]bool
	sliceParts map[string][4]string
	bitFoot    map[string][2]int
	arrDef     map[string]string    // named inner array constant -> its defining term (a short chain of stores over an older array)
	arrChain   map[string]*arrLink
	frameDef   map[string]frameDef  // loop-havocked heap constant -> (heap at loop entry, loop assign targets)
	heapDef    map[string][3]string // named heap constant -> (base heap, object ref, inner value) of its defining store
	finalObl   bool // obligations at a return: nothing follows, so they are not added to the assumptions
	skForm     map[string]string // quantified goal -> form with goal-position quantifiers skolemised
	heapCellT map[string]types.Type // heap name -> Go type of one cell (nil for ghost)
	heapDims  map[string]int        // 1: Array Int T, 2: Array Int (Array Int T) / map
	heapKeyS  map[string]string     // second-dimension index sort (for element / map heaps)
	heapReg   map[string]func(*Ctx) // how to (re-)register a heap name in another context
	sweepFilter map[string]map[string]bool
}

func newCtx(P *Program) *Ctx {
	c := &Ctx{P: P, declared: map[string]bool{}, sorts: map[string]string{}, structs: map[string]*types.Struct{},
		heapSort: map[string]string{}, typeIDs: map[string]int{}, notes: map[string]bool{}, ordinals: map[string]int{},
		strLits: map[string]bool{}, nonzero: map[string]bool{}, sliceParts: map[string][4]string{}, skForm: map[string]string{}, heapDef: map[string][3]string{}, frameDef: map[string]frameDef{}, arrDef: map[string]string{}, arrChain: map[string]*arrLink{},
		heapCellT: map[string]types.Type{}, heapDims: map[string]int{}, heapKeyS: map[string]string{}, heapReg: map[string]func(*Ctx){}}
	c.typeByID = append(c.typeByID, nil)
	c.decls = append(c.decls, "(assert (forall ((a! (Array Int Int)) (o! Int) (n! Int)) (! (= (bv.len (bv.of a! o! n!)) n!) :pattern ((bv.of a! o! n!)))))")
	// byte i of the byte string made of a[o..o+n) is a[o+i]
	c.decls = append(c.decls, "(assert (forall ((a! (Array Int Int)) (o! Int) (n! Int) (i! Int)) (! (=> (and (<= 0 i!) (< i! n!)) (= (bv.at (bv.of a! o! n!) i!) (select a! (+ o! i!)))) :pattern ((bv.at (bv.of a! o! n!) i!)))))")
	return c
}

const prelude = `(set-option :produce-models true)
(set-logic ALL)
(declare-datatypes ((Slice 0)) (((mk-slice (s.ref Int) (s.off Int) (s.len Int) (s.cap Int)))))
(declare-datatypes ((Iface 0)) (((mk-iface (i.tid Int) (i.ref Int)))))
(declare-sort BV 0)
(declare-sort Float 0)
(declare-fun bv.len (BV) Int)
(declare-fun bv.at (BV Int) Int)
(declare-fun bv.of ((Array Int Int) Int Int) BV)
(declare-fun bv.ofstr (String) BV)
(declare-fun bv.tostr (BV) String)
(declare-fun bits.and (Int Int) Int)
(declare-fun bits.or (Int Int) Int)
(declare-fun bits.xor (Int Int) Int)
(declare-fun bits.shl (Int Int) Int)
(declare-fun bits.shr (Int Int) Int)
(declare-fun pow2 (Int) Int)
`

func (c *Ctx) decl(name, text string) {
	if c.declared[name] {
		return
	}
	c.declared[name] = true
	c.decls = append(c.decls, text)
}

func (c *Ctx) declConst(name, sort string) string {
	q := qsym(name)
	c.decl(name, fmt.Sprintf("(declare-const %s %s)", q, sort))
	return q
}

func (c *Ctx) declFun(name string, args []string, ret string) string {
	q := qsym(name)
	c.decl("fun:"+name, fmt.Sprintf("(declare-fun %s (%s) %s)", q, strings.Join(args, " "), ret))
	return q
}

func (c *Ctx) freshName(base string) string {
	c.fresh++
	return fmt.Sprintf("%s!%d", base, c.fresh)
}

func (c *Ctx) freshConst(base, sort string) string {
	return c.declConst(c.freshName(base), sort)
}

func (c *Ctx) assert(t string) {
	if t == "true" {
		return
	}
	if c.curOpaque != "" {
		if c.opaque == nil {
			c.opaque = map[int]string{}
		}
		c.opaque[len(c.asserts)] = c.curOpaque
	}
	c.asserts = append(c.asserts, t)
}

func (c *Ctx) assume(guard, fact string) {
	if fact == "true" {
		return
	}
	if len(c.arrDef) > 0 && len(fact) < 400000 && strings.Contains(fact, "(select (select ") && !strings.Contains(fact, "(forall ") && !strings.Contains(fact, "(exists ") {
		// resolve reads of byte buffers through their store chains here (store forwarding), so that the fact
		// speaks about the stored values themselves
		fact = c.simplify(fact)
		if fact == "true" {
			return
		}
	}
	c.assert(implies(guard, fact))
}

func (c *Ctx) note(format string, a ...any) {
	c.notes[fmt.Sprintf(format, a...)] = true
}

// oblige records an obligation and then assumes its goal (assert-then-assume).
var sweepKinds = map[string]bool{"nil": true, "index": true, "slice": true, "div": true, "nilinvoke": true, "nilmap": true,
	"typeassert": true, "panic": true, "makeslice": true, "nilcall": true, "nowrap": true, "exact": true}

func (c *Ctx) oblige(kind string, tags []string, guard, goal, where, detail string) {
	goal = c.simplify(goal)
	var reveal []string
	if len(tags) > 0 {
		var kept []string
		for _, t := range tags {
			if strings.HasPrefix(t, "use:") {
				reveal = append(reveal, strings.TrimPrefix(t, "use:"))
			} else {
				kept = append(kept, t)
			}
		}
		tags = kept
	}
	fkind := kind
	if kind == "makelen" {
		fkind = "makeslice" // claimed wherever make() is swept
	}
	if sweepKinds[fkind] && c.sweepFilter != nil && len(tags) > 0 {
		var kept []string
		for _, t := range tags {
			if ks, ok := c.sweepFilter[t]; !ok || ks[fkind] {
				kept = append(kept, t)
			}
		}
		if len(kept) == 0 {
			kept = []string{"-"} // claimed by no property; still checked-then-assumed for soundness of later facts
		}
		tags = kept
	}
	if goal == "true" || guard == "false" {
		return
	}
	if !c.discard {
		key := c.curFunc + "#" + kind
		if len(tags) > 0 {
			key += "[" + strings.Join(tags, ",") + "]"
		}
		c.ordinals[key]++
		o := &Obligation{Name: fmt.Sprintf("%s@%d", key, c.ordinals[key]), Func: c.curFunc, Kind: kind, Tags: tags,
			Pos: len(c.asserts), Guard: guard, Goal: goal, Where: where, Detail: detail, Reveal: reveal}
		if sk, ok := c.skForm[goal]; ok {
			o.Goal = c.simplify(sk)
		}
		c.obls = append(c.obls, o)
	}
	if !c.finalObl {
		// assert-then-assume — but only what this run also checks: an obligation that belongs to another
		// property's check is not counted here, so it must not be assumed here either (a change that breaks it
		// would otherwise make everything after it hold vacuously in this check).
		// (Run-time panics are the exception: execution only continues past a dereference, index, division, type
		// assertion or make if it did not panic, so their conditions hold on every path that goes on.)
		if checkProp == "" || kind == "cover" || panicKinds[kind] || (&Obligation{Kind: kind, Tags: tags}).servesProp(checkProp) {
			c.assume(guard, goal)
		}
	}
}

var panicKinds = map[string]bool{"nil": true, "index": true, "slice": true, "div": true, "nilinvoke": true, "nilmap": true, "typeassert": true, "panic": true, "makeslice": true, "makelen": true, "nilcall": true}

// checkProp is the property whose check is running ("" in `govc func` mode: everything is shown and assumed).
var checkProp string

func (o *Obligation) servesProp(prop string) bool { return oblServes(o, prop) }

func qsym(s string) string {
	simple := true
	for _, r := range s {
		if !(r >= 'a' && r <= 'z' || r >= 'A' && r <= 'Z' || r >= '0' && r <= '9' || r == '_' || r == '.' || r == '!' || r == '$') {
			simple = false
			break
		}
	}
	if simple && len(s) > 0 && !(s[0] >= '0' && s[0] <= '9') {
		return s
	}
	s = strings.ReplaceAll(s, "|", "/")
	s = strings.ReplaceAll(s, "\\", "/")
	return "|" + s + "|"
}

// ---------------------------------------------------------------------------------------------
// term helpers

func and(ts ...string) string {
	var out []string
	for _, t := range ts {
		if t == "true" || t == "" {
			continue
		}
		if t == "false" {
			return "false"
		}
		out = append(out, t)
	}
	switch len(out) {
	case 0:
		return "true"
	case 1:
		return out[0]
	}
	return "(and " + strings.Join(out, " ") + ")"
}

func or(ts ...string) string {
	var out []string
	for _, t := range ts {
		if t == "false" || t == "" {
			continue
		}
		if t == "true" {
			return "true"
		}
		out = append(out, t)
	}
	switch len(out) {
	case 0:
		return "false"
	case 1:
		return out[0]
	}
	return "(or " + strings.Join(out, " ") + ")"
}

func not(t string) string {
	switch t {
	case "true":
		return "false"
	case "false":
		return "true"
	}
	if strings.HasPrefix(t, "(not ") && balanced(t[5:len(t)-1]) {
		return t[5 : len(t)-1]
	}
	return "(not " + t + ")"
}

func balanced(s string) bool {
	d := 0
	inq := false
	for i, r := range s {
		if r == '|' {
			inq = !inq
		}
		if inq {
			continue
		}
		if r == '(' {
			d++
		} else if r == ')' {
			d--
			if d < 0 {
				return false
			}
			if d == 0 && i != len(s)-1 {
				return false
			}
		} else if d == 0 && (r == ' ') {
			return false
		}
	}
	return d == 0
}

func implies(a, b string) string {
	if a == "true" {
		return b
	}
	if a == "false" || b == "true" {
		return "true"
	}
	return "(=> " + a + " " + b + ")"
}

func ite(c, a, b string) string {
	if c == "true" {
		return a
	}
	if c == "false" {
		return b
	}
	if a == b {
		return a
	}
	return "(ite " + c + " " + a + " " + b + ")"
}

func eq(a, b string) string {
	if a == b {
		return "true"
	}
	return "(= " + a + " " + b + ")"
}

func app(f string, args ...string) string {
	if len(args) == 0 {
		return f
	}
	return "(" + f + " " + strings.Join(args, " ") + ")"
}

func sel(a string, idx ...string) string {
	for _, i := range idx {
		a = "(select " + a + " " + i + ")"
	}
	return a
}

func sto(a, i, v string) string { return "(store " + a + " " + i + " " + v + ")" }

func num(n int64) string {
	if n < 0 {
		return fmt.Sprintf("(- %d)", -n)
	}
	return fmt.Sprintf("%d", n)
}

func bignum(n *big.Int) string {
	if n.Sign() < 0 {
		return "(- " + new(big.Int).Neg(n).String() + ")"
	}
	return n.String()
}

func pow2s(n int) string { return new(big.Int).Lsh(big.NewInt(1), uint(n)).String() }

func strLit(s string) string {
	var b strings.Builder
	b.WriteByte('"')
	for _, r := range []byte(s) {
		if r == '"' {
			b.WriteString("\"\"")
		} else if r >= 32 && r < 127 && r != '\\' {
			b.WriteByte(r)
		} else {
			fmt.Fprintf(&b, "\\u{%x}", r)
		}
	}
	b.WriteByte('"')
	return b.String()
}

// ---------------------------------------------------------------------------------------------
// Go type -> SMT sort

func intInfo(t types.Type) (bits int, signed bool, ok bool) {
	b, isb := t.Underlying().(*types.Basic)
	if !isb {
		return 0, false, false
	}
	switch b.Kind() {
	case types.Int8:
		return 8, true, true
	case types.Int16:
		return 16, true, true
	case types.Int32:
		return 32, true, true
	case types.Int64, types.Int:
		return 64, true, true
	case types.Uint8:
		return 8, false, true
	case types.Uint16:
		return 16, false, true
	case types.Uint32:
		return 32, false, true
	case types.Uint64, types.Uint, types.Uintptr:
		return 64, false, true
	case types.UntypedInt, types.UntypedRune:
		return 64, true, true
	}
	return 0, false, false
}

func intRange(bits int, signed bool) (lo, hi string) {
	if signed {
		h := new(big.Int).Lsh(big.NewInt(1), uint(bits-1))
		return "(- " + h.String() + ")", new(big.Int).Sub(h, big.NewInt(1)).String()
	}
	h := new(big.Int).Lsh(big.NewInt(1), uint(bits))
	return "0", new(big.Int).Sub(h, big.NewInt(1)).String()
}

func typeKey(t types.Type) string {
	t = types.Unalias(t)
	if b, ok := t.(*types.Basic); ok {
		switch b.Kind() {
		case types.Uint8:
			return "uint8"
		case types.Int32:
			return "int32"
		}
	}
	s := types.TypeString(t, nil)
	if strings.Contains(s, "byte") || strings.Contains(s, "rune") {
		s = byteRe.ReplaceAllString(s, "uint8")
		s = runeRe.ReplaceAllString(s, "int32")
	}
	return s
}

var byteRe = regexp.MustCompile(`\bbyte\b`)
var runeRe = regexp.MustCompile(`\brune\b`)

func isStructPtr(t types.Type) (*types.Struct, types.Type, bool) {
	p, ok := t.Underlying().(*types.Pointer)
	if !ok {
		return nil, nil, false
	}
	s, ok := p.Elem().Underlying().(*types.Struct)
	return s, p.Elem(), ok
}

// sortOf returns the SMT sort representing values of Go type t.
func (c *Ctx) sortOf(t types.Type) string {
	switch u := t.Underlying().(type) {
	case *types.Basic:
		switch {
		case u.Info()&types.IsBoolean != 0:
			return "Bool"
		case u.Info()&types.IsInteger != 0:
			return "Int"
		case u.Info()&types.IsString != 0:
			return "String"
		case u.Info()&types.IsFloat != 0, u.Info()&types.IsComplex != 0:
			return "Float"
		case u.Kind() == types.UnsafePointer:
			return "Int"
		case u.Kind() == types.UntypedNil:
			return "Int"
		}
		return "Int"
	case *types.Pointer, *types.Map, *types.Chan, *types.Signature:
		return "Int"
	case *types.Slice:
		return "Slice"
	case *types.Interface:
		return "Iface"
	case *types.Array:
		return "(Array Int " + c.sortOf(u.Elem()) + ")"
	case *types.Struct:
		return c.structSort(t, u)
	case *types.Tuple:
		return "Int" // never used as a value
	case *types.TypeParam:
		return "Int"
	}
	return "Int"
}

func (c *Ctx) structName(t types.Type) string {
	return "S:" + typeKey(t)
}

func (c *Ctx) structSort(t types.Type, s *types.Struct) string {
	name := c.structName(t)
	if _, ok := c.structs[name]; ok {
		return qsym(name)
	}
	c.structs[name] = s
	// declare field sorts first (recursion through pointers is cut because pointers are Int)
	var fields []string
	for i := 0; i < s.NumFields(); i++ {
		fields = append(fields, fmt.Sprintf("(%s %s)", qsym(c.fieldProj(name, i)), c.sortOf(s.Field(i).Type())))
	}
	if len(fields) == 0 {
		fields = append(fields, fmt.Sprintf("(%s Int)", qsym(name+"#unit")))
	}
	c.decl(name, fmt.Sprintf("(declare-datatypes ((%s 0)) (((%s %s))))", qsym(name), qsym("mk:"+name), strings.Join(fields, " ")))
	return qsym(name)
}

func (c *Ctx) fieldProj(structName string, i int) string {
	return fmt.Sprintf("%s#%d", structName, i)
}

func (c *Ctx) mkStruct(t types.Type, fields []string) string {
	c.sortOf(t)
	name := c.structName(t)
	if len(fields) == 0 {
		fields = []string{"0"}
	}
	return app(qsym("mk:"+name), fields...)
}

func (c *Ctx) projField(t types.Type, v string, i int) string {
	c.sortOf(t)
	return app(qsym(c.fieldProj(c.structName(t), i)), v)
}

func (c *Ctx) updField(t types.Type, v string, i int, nv string) string {
	s := t.Underlying().(*types.Struct)
	var fs []string
	for k := 0; k < s.NumFields(); k++ {
		if k == i {
			fs = append(fs, nv)
		} else {
			fs = append(fs, c.projField(t, v, k))
		}
	}
	return c.mkStruct(t, fs)
}

// zero value term of a Go type
func (c *Ctx) zero(t types.Type) string {
	switch u := t.Underlying().(type) {
	case *types.Basic:
		switch {
		case u.Info()&types.IsBoolean != 0:
			return "false"
		case u.Info()&types.IsString != 0:
			return "\"\""
		case u.Info()&types.IsFloat != 0, u.Info()&types.IsComplex != 0:
			return c.declConst("float.zero", "Float")
		}
		return "0"
	case *types.Slice:
		return "(mk-slice 0 0 0 0)"
	case *types.Interface:
		return "(mk-iface 0 0)"
	case *types.Array:
		return fmt.Sprintf("((as const %s) %s)", c.sortOf(t), c.zero(u.Elem()))
	case *types.Struct:
		var fs []string
		for i := 0; i < u.NumFields(); i++ {
			fs = append(fs, c.zero(u.Field(i).Type()))
		}
		return c.mkStruct(t, fs)
	}
	return "0"
}

// wf returns well-formedness facts about a value v of type t obtained at watermark wm
// (ranges of machine integers, slice header sanity, references below the watermark).
func (c *Ctx) wf(t types.Type, v string, wm string) string {
	return c.wfDepth(t, v, wm, 0)
}

func (c *Ctx) wfDepth(t types.Type, v, wm string, depth int) string {
	switch u := t.Underlying().(type) {
	case *types.Basic:
		if bits, signed, ok := intInfo(t); ok {
			lo, hi := intRange(bits, signed)
			return fmt.Sprintf("(and (<= %s %s) (<= %s %s))", lo, v, v, hi)
		}
		return "true"
	case *types.Pointer, *types.Map, *types.Chan, *types.Signature:
		return fmt.Sprintf("(and (<= 0 %s) (< %s %s))", v, v, wm)
	case *types.Slice:
		return fmt.Sprintf("(and (<= 0 (s.ref %[1]s)) (< (s.ref %[1]s) %[2]s) (<= 0 (s.off %[1]s)) (<= 0 (s.len %[1]s)) (<= (s.len %[1]s) (s.cap %[1]s)) (<= (s.cap %[1]s) 4611686018427387904) (<= (s.off %[1]s) 4611686018427387904) (=> (= (s.ref %[1]s) 0) (and (= (s.cap %[1]s) 0) (= (s.off %[1]s) 0))))", v, wm)
	case *types.Interface:
		return fmt.Sprintf("(and (<= 0 (i.tid %[1]s)) (< (i.ref %[1]s) %[2]s) (=> (= (i.tid %[1]s) 0) (= (i.ref %[1]s) 0)))", v, wm)
	case *types.Struct:
		if depth > 2 {
			return "true"
		}
		var fs []string
		for i := 0; i < u.NumFields(); i++ {
			fs = append(fs, c.wfDepth(u.Field(i).Type(), c.projField(t, v, i), wm, depth+1))
		}
		return and(fs...)
	case *types.Array:
		if _, _, ok := intInfo(u.Elem()); ok && u.Len() <= 64 && depth <= 1 {
			var fs []string
			for i := int64(0); i < u.Len(); i++ {
				fs = append(fs, c.wfDepth(u.Elem(), sel(v, num(i)), wm, depth+1))
			}
			return and(fs...)
		}
		return "true"
	}
	return "true"
}

func (c *Ctx) typeID(t types.Type) int {
	k := typeKey(t)
	if id, ok := c.typeIDs[k]; ok {
		return id
	}
	id := len(c.typeByID)
	c.typeIDs[k] = id
	c.typeByID = append(c.typeByID, t)
	return id
}

// ---------------------------------------------------------------------------------------------
// heap array naming

func (c *Ctx) fieldHeap(structT types.Type, i int) string {
	s := structT.Underlying().(*types.Struct)
	name := fmt.Sprintf("F:%s#%d.%s", typeKey(structT), i, s.Field(i).Name())
	if _, ok := c.heapSort[name]; !ok {
		c.heapSort[name] = "(Array Int " + c.sortOf(s.Field(i).Type()) + ")"
		c.heapCellT[name], c.heapDims[name] = s.Field(i).Type(), 1
		c.heapReg[name] = func(o *Ctx) { o.fieldHeap(structT, i) }
	}
	return name
}

func (c *Ctx) boxHeap(t types.Type) string {
	name := "B:" + typeKey(t)
	if _, ok := c.heapSort[name]; !ok {
		c.heapSort[name] = "(Array Int " + c.sortOf(t) + ")"
		c.heapCellT[name], c.heapDims[name] = t, 1
		c.heapReg[name] = func(o *Ctx) { o.boxHeap(t) }
	}
	return name
}

func (c *Ctx) elemHeap(elem types.Type) string {
	name := "E:" + typeKey(elem)
	if _, ok := c.heapSort[name]; !ok {
		c.heapSort[name] = "(Array Int (Array Int " + c.sortOf(elem) + "))"
		c.heapCellT[name], c.heapDims[name], c.heapKeyS[name] = elem, 2, "Int"
		c.heapReg[name] = func(o *Ctx) { o.elemHeap(elem) }
	}
	return name
}

func (c *Ctx) mapHeaps(m *types.Map) (has, val, length string) {
	k := typeKey(m)
	has, val, length = "MH:"+k, "MV:"+k, "ML:"+k
	if _, ok := c.heapSort[has]; !ok {
		ks := c.sortOf(m.Key())
		c.heapSort[has] = "(Array Int (Array " + ks + " Bool))"
		c.heapSort[val] = "(Array Int (Array " + ks + " " + c.sortOf(m.Elem()) + "))"
		c.heapSort[length] = "(Array Int Int)"
		c.heapCellT[val], c.heapDims[val], c.heapKeyS[val] = m.Elem(), 2, ks
		for _, n := range []string{has, val, length} {
			c.heapReg[n] = func(o *Ctx) { o.mapHeaps(m) }
		}
	}
	return
}

func (c *Ctx) globalHeap(pkg, name string, t types.Type) string {
	h := "G:" + pkg + "." + name
	if _, ok := c.heapSort[h]; !ok {
		c.heapSort[h] = "(Array Int " + c.sortOf(t) + ")"
		c.heapCellT[h], c.heapDims[h] = t, 1
		c.heapReg[h] = func(o *Ctx) { o.globalHeap(pkg, name, t) }
	}
	return h
}

// heapWF states that every cell of heap array term h (of heap `name`) holds a well-formed value with
// all references below watermark wm. Empty when the cell type holds no references or integers.
func (c *Ctx) heapWF(name, h, wm string) string {
	t := c.heapCellT[name]
	if t == nil {
		return ""
	}
	var body, vars, pat string
	switch c.heapDims[name] {
	case 1:
		body = c.wf(t, "(select "+h+" r!)", wm)
		vars, pat = "((r! Int))", "(select "+h+" r!)"
	case 2:
		body = c.wf(t, "(select (select "+h+" r!) k!)", wm)
		vars, pat = "((r! Int) (k! "+c.heapKeyS[name]+"))", "(select (select "+h+" r!) k!)"
	}
	if body == "true" || body == "" {
		return ""
	}
	c.quant = true
	// Only cells of objects that exist (reference below the watermark) are constrained: an object a callee
	// allocates and returns occupies cells above the caller's watermark at the time of the call, and what the
	// callee stored there (including references to other objects it allocated) is told by its contract alone.
	return fmt.Sprintf("(forall %s (! (=> (< r! %s) %s) :pattern (%s)))", vars, wm, body, pat)
}

func (c *Ctx) ghostVar(name, sortS string) string {
	h := "ghost:" + name
	if _, ok := c.heapSort[h]; !ok {
		c.heapSort[h] = sortS
		c.heapReg[h] = func(o *Ctx) { o.ghostVar(name, sortS) }
	}
	return h
}

// ---------------------------------------------------------------------------------------------
// State: current heap arrays (+ watermark + ghost variables), persistent-map style.

type State struct {
	c     *Ctx
	heap  map[string]string
	marks map[string]string // view synchronisation marks (not merged)
	views []view            // array views alive on this path (see exec.go)
}

const wmKey = "$wm"

func (c *Ctx) newState() *State {
	c.heapSort[wmKey] = "Int"
	return &State{c: c, heap: map[string]string{}, marks: map[string]string{}}
}

func (s *State) clone() *State {
	n := &State{c: s.c, heap: make(map[string]string, len(s.heap)), marks: make(map[string]string, len(s.marks))}
	for k, v := range s.heap {
		n.heap[k] = v
	}
	for k, v := range s.marks {
		n.marks[k] = v
	}
	n.views = append([]view{}, s.views...)
	return n
}

func (s *State) get(name string) string {
	if t, ok := s.heap[name]; ok {
		return t
	}
	srt, ok := s.c.heapSort[name]
	if !ok {
		panic("unknown heap " + name)
	}
	t := s.c.declConst("H0:"+name, srt)
	if !s.c.declared["wf:H0:"+name] {
		s.c.declared["wf:H0:"+name] = true
		if name != wmKey {
			if q := s.c.heapWF(name, t, s.c.declConst("H0:"+wmKey, "Int")); q != "" {
				s.c.decls = append(s.c.decls, "(assert "+q+")")
			}
		}
	}
	return t
}

func (s *State) set(name, term string) {
	// keep terms small: name every update
	c := s.c
	srt := c.heapSort[name]
	if len(term) > 60 {
		// Repeated updates of the same object collapse: with X := (store B r A'), the update
		// (store X r (.. (select X r) ..)) is (store B r (.. A' ..)), so reads of other objects skip the whole
		// history of r in one step and the history of r is a chain over its own (inner) array only.
		if strings.HasPrefix(term, "(store ") && strings.HasPrefix(srt, "(Array Int (Array ") && os.Getenv("GOVC_NOCOLLAPSE") == "" {
			if n := parseSx(term); len(n.kids) == 4 {
				base, ref, inner := n.kids[1].String(), n.kids[2].String(), n.kids[3].String()
				if d, ok := c.heapDef[base]; ok && d[1] == ref {
					inner = strings.ReplaceAll(inner, "(select "+base+" "+ref+")", d[2])
					base = d[0]
				}
				if len(inner) > 60 {
					ia := c.freshConst("arr:"+name, strings.TrimSuffix(strings.TrimPrefix(srt, "(Array Int "), ")"))
					c.assert(eq(ia, inner))
					c.arrDef[ia] = inner
					inner = ia
				}
				k := c.freshConst("h:"+name, srt)
				c.assert(eq(k, sto(base, ref, inner)))
				c.heapDef[k] = [3]string{base, ref, inner}
				s.heap[name] = k
				return
			}
		}
		k := c.freshConst("h:"+name, srt)
		c.assert(eq(k, term))
		term = k
	}
	s.heap[name] = term
}

func (s *State) wm() string { return s.get(wmKey) }

// alloc returns a fresh non-nil reference and bumps the watermark.
func (s *State) alloc() string {
	r := s.c.freshConst("ref", "Int")
	w := s.wm()
	s.c.assert(fmt.Sprintf("(and (= %s %s) (> %s 0))", r, w, r))
	s.c.nonzero[r] = true
	nw := s.c.freshConst("wm", "Int")
	s.c.assert(fmt.Sprintf("(= %s (+ %s 1))", nw, w))
	s.heap[wmKey] = nw
	return r
}

// bumpWM models allocation by an opaque callee.
func (s *State) bumpWM() {
	w := s.wm()
	nw := s.c.freshConst("wm", "Int")
	s.c.assert(fmt.Sprintf("(>= %s %s)", nw, w))
	s.heap[wmKey] = nw
}

type guardedState struct {
	guard string
	st    *State
}

// mergeStates builds the state at a join point.
func (c *Ctx) mergeStates(gs []guardedState) *State {
	if len(gs) == 0 {
		return c.newState()
	}
	if len(gs) == 1 {
		return gs[0].st.clone()
	}
	keys := map[string]bool{}
	for _, g := range gs {
		for k := range g.st.heap {
			keys[k] = true
		}
	}
	var ks []string
	for k := range keys {
		ks = append(ks, k)
	}
	sort.Strings(ks)
	out := c.newState()
	seenView := map[string]bool{}
	for _, g := range gs {
		for _, v := range g.st.views {
			if !seenView[v.ref] {
				seenView[v.ref] = true
				out.views = append(out.views, v)
			}
		}
	}
	for _, k := range ks {
		first := gs[0].st.get(k)
		same := true
		for _, g := range gs[1:] {
			if g.st.get(k) != first {
				same = false
				break
			}
		}
		if same {
			out.heap[k] = first
			continue
		}
		t := gs[len(gs)-1].st.get(k)
		for i := len(gs) - 2; i >= 0; i-- {
			t = ite(gs[i].guard, gs[i].st.get(k), t)
		}
		m := c.freshConst("m:"+k, c.heapSort[k])
		c.assert(eq(m, t))
		out.heap[k] = m
	}
	return out
}

type frameDef struct {
	old     string
	targets []assignTarget
	heap    string
}
