package main

import (
	"bytes"
	"context"
	"fmt"
	"os"
	"os/exec"
	"path/filepath"
	"strings"
	"sync"
	"time"
)

type solverSpec struct {
	name string
	args func(file string, timeoutS int, seed int) []string
}

var solvers = []solverSpec{
	{"z3-new", func(f string, t, seed int) []string {
		return []string{"z3-new", fmt.Sprintf("-T:%d", t), fmt.Sprintf("smt.random_seed=%d", seed), fmt.Sprintf("sat.random_seed=%d", seed), f}
	}},
	{"cvc5", func(f string, t, seed int) []string {
		return []string{"cvc5", fmt.Sprintf("--tlimit=%d", t*1000), fmt.Sprintf("--seed=%d", seed), "--strings-exp", f}
	}},
	{"z3-new-ematch", func(f string, t, seed int) []string {
		return []string{"z3-new", fmt.Sprintf("-T:%d", t), "smt.mbqi=false", fmt.Sprintf("smt.random_seed=%d", seed), f}
	}},
	{"z3", func(f string, t, seed int) []string {
		return []string{"z3", fmt.Sprintf("-T:%d", t), fmt.Sprintf("smt.random_seed=%d", seed), f}
	}},
}

// query builds the SMT-LIB text of one obligation.
func (c *Ctx) query(o *Obligation, wantModel bool, dropQuant bool) string {
	var b strings.Builder
	b.WriteString(prelude)
	for _, d := range c.decls {
		if dropQuant && strings.HasPrefix(d, "(assert") && hasQuant(d) {
			continue
		}
		b.WriteString(d)
		b.WriteByte('\n')
	}
	for i, a := range c.asserts[:o.Pos] {
		if lb, ok := c.opaque[i]; ok && !hasTag(o.Reveal, lb) {
			continue // opaque assumption not revealed to this obligation (dropping an assumption is sound)
		}
		if dropQuant && hasQuant(a) {
			continue // dropping an assumption only weakens what is known: 'unsat' stays sound
		}
		b.WriteString("(assert ")
		b.WriteString(a)
		b.WriteString(")\n")
	}
	fmt.Fprintf(&b, "(assert %s)\n(assert (not %s))\n(check-sat)\n", o.Guard, o.Goal)
	if wantModel {
		b.WriteString("(get-model)\n")
	}
	return b.String()
}

func hasQuant(s string) bool {
	return strings.Contains(s, "(forall ") || strings.Contains(s, "(exists ")
}

func runSolver(ctx context.Context, s solverSpec, file string, timeoutS, seed int) (status, out string) {
	a := s.args(file, timeoutS, seed)
	cctx, cancel := context.WithTimeout(ctx, time.Duration(timeoutS+2)*time.Second)
	defer cancel()
	cmd := exec.CommandContext(cctx, a[0], a[1:]...)
	var buf bytes.Buffer
	cmd.Stdout = &buf
	cmd.Stderr = &buf
	cmd.Run()
	out = buf.String()
	first := strings.TrimSpace(strings.SplitN(out, "\n", 2)[0])
	switch first {
	case "unsat", "sat", "unknown":
		return first, out
	case "timeout":
		return "timeout", out
	}
	if cctx.Err() != nil {
		return "timeout", out
	}
	if strings.Contains(out, "interrupted") || strings.Contains(out, "timeout") {
		return "timeout", out
	}
	return "error", out
}

// discharge decides one obligation: quick single solver first, then a race of all solvers.
func discharge(c *Ctx, o *Obligation, dir string, idx int, tier string, seed int) {
	t0 := time.Now()
	file := filepath.Join(dir, fmt.Sprintf("o%05d.smt2", idx))
	defer func() { o.TimeS = time.Since(t0).Seconds() }()
	first, escal := 3, 45
	if tier == "thorough" {
		first, escal = 10, 120
	}
	// stage A: without the quantified assumptions (decidable fragment in most cases)
	var weakModel string
	if c.quant {
		fileA := filepath.Join(dir, fmt.Sprintf("o%05da.smt2", idx))
		qa := c.query(o, true, true)
		os.WriteFile(fileA, []byte(qa), 0o644)
		stA, outA := runSolver(context.Background(), solvers[0], fileA, first, seed)
		if stA == "unsat" {
			o.SMTSize = len(qa)
			o.Status, o.Solver = "unsat", solvers[0].name
			if tier != "thorough" {
				return
			}
			for _, s2 := range solvers[1:] {
				if st2, _ := runSolver(context.Background(), s2, fileA, escal, seed); st2 == "unsat" {
					o.Solver += "+" + s2.name
					return
				}
			}
			return
		}
		if stA == "sat" {
			weakModel = outA
		}
	}
	q := c.query(o, true, false)
	o.SMTSize = len(q)
	os.WriteFile(file, []byte(q), 0o644)
	defer func() {
		if o.Status != "unsat" && o.Status != "sat" && weakModel != "" {
			o.Model = "; solver gave no definite answer with the quantified assumptions; candidate counterexample obtained without them:\n" + weakModel
		}
	}()
	st, out := runSolver(context.Background(), solvers[0], file, first, seed)
	if st == "unsat" || st == "sat" {
		o.Status, o.Solver = st, solvers[0].name
		if st == "sat" {
			o.Model = out
		}
		if tier == "thorough" && st == "unsat" {
			// cross-check with a second solver
			for _, s2 := range solvers[1:] {
				st2, out2 := runSolver(context.Background(), s2, file, escal, seed)
				if st2 == "unsat" {
					o.Solver += "+" + s2.name
					break
				}
				if st2 == "sat" {
					o.Status, o.Model, o.Solver = "sat", out2, s2.name+"(disagrees with z3-new)"
					break
				}
			}
		}
		return
	}
	// race
	ctx, cancel := context.WithCancel(context.Background())
	defer cancel()
	type res struct{ st, out, name string }
	ch := make(chan res, len(solvers))
	for _, s := range solvers {
		s := s
		go func() {
			st, out := runSolver(ctx, s, file, escal, seed)
			ch <- res{st, out, s.name}
		}()
	}
	lastSt, lastOut := st, out
	for range solvers {
		r := <-ch
		if r.st == "unsat" || r.st == "sat" {
			o.Status, o.Solver = r.st, r.name
			if r.st == "sat" {
				o.Model = r.out
			}
			return
		}
		if r.st != "error" {
			lastSt, lastOut = r.st, r.out
		} else if lastSt == "" || lastSt == "error" {
			lastSt, lastOut = r.st, r.out
		}
	}
	o.Status, o.Solver, o.Model = lastSt, "portfolio", lastOut
}

func dischargeAll(c *Ctx, obls []*Obligation, dir string, tier string, seed int, workers int) {
	var wg sync.WaitGroup
	sem := make(chan struct{}, workers)
	for i, o := range obls {
		wg.Add(1)
		sem <- struct{}{}
		go func(i int, o *Obligation) {
			defer wg.Done()
			defer func() { <-sem }()
			discharge(c, o, dir, i, tier, seed)
		}(i, o)
	}
	wg.Wait()
}

// checkSat asks whether the given assertion prefix plus extra is satisfiable (vacuity guards).
func (c *Ctx) checkSat(pos int, extra string, dir, name string, timeoutS int) string {
	var b strings.Builder
	b.WriteString(prelude)
	for _, d := range c.decls {
		b.WriteString(d)
		b.WriteByte('\n')
	}
	for _, a := range c.asserts[:pos] {
		b.WriteString("(assert " + a + ")\n")
	}
	if extra != "" {
		b.WriteString("(assert " + extra + ")\n")
	}
	b.WriteString("(check-sat)\n")
	file := filepath.Join(dir, name+".smt2")
	os.WriteFile(file, []byte(b.String()), 0o644)
	st, _ := runSolver(context.Background(), solvers[0], file, timeoutS, 0)
	return st
}
