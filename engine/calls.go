package main

import (
	"os"
	"fmt"
	"go/token"
	"go/types"
	"regexp"
	"sort"
	"strconv"
	"strings"

	"golang.org/x/tools/go/ssa"
)

// ---------------------------------------------------------------------------------------------
// arithmetic

func isNum(s string) (int64, bool) {
	n, err := strconv.ParseInt(s, 10, 64)
	return n, err == nil
}

func add(a, b string) string {
	if x, ok := isNum(a); ok {
		if y, ok := isNum(b); ok && x+y >= 0 {
			return num(x + y)
		}
		if x == 0 {
			return b
		}
	}
	if y, ok := isNum(b); ok && y == 0 {
		return a
	}
	return "(+ " + a + " " + b + ")"
}

func sub(a, b string) string {
	if y, ok := isNum(b); ok {
		if y == 0 {
			return a
		}
		if x, ok := isNum(a); ok && x-y >= 0 {
			return num(x - y)
		}
	}
	return "(- " + a + " " + b + ")"
}

// wrap reduces an integer term to the machine range.
func wrap(t string, bits int, signed bool) string {
	if n, ok := isNum(t); ok && n >= 0 && (bits == 64 || n < 1<<uint(bits-1)) {
		return t
	}
	m := pow2s(bits)
	if !signed {
		return "(mod " + t + " " + m + ")"
	}
	h := pow2s(bits - 1)
	return "(- (mod (+ " + t + " " + h + ") " + m + ") " + h + ")"
}

var pow2Re = regexp.MustCompile(`^[0-9]+$`)

func log2(s string) (int, bool) {
	if !pow2Re.MatchString(s) {
		return 0, false
	}
	for k := 0; k <= 64; k++ {
		if pow2s(k) == s {
			return k, true
		}
	}
	return 0, false
}

// lowMask: is s == 2^k - 1 ?
func lowMask(s string) (int, bool) {
	if !pow2Re.MatchString(s) {
		return 0, false
	}
	for k := 0; k <= 64; k++ {
		if maskStr(k) == s {
			return k, true
		}
	}
	return 0, false
}

func maskStr(k int) string {
	// 2^k - 1
	p := pow2s(k)
	// decimal subtract 1
	b := []byte(p)
	i := len(b) - 1
	for b[i] == '0' {
		b[i] = '9'
		i--
	}
	b[i]--
	s := strings.TrimLeft(string(b), "0")
	if s == "" {
		s = "0"
	}
	return s
}

func (f *Frame) binop(in ssa.Instruction, op token.Token, x, y SV, xt, yt, rt types.Type, st *State, g string) SV {
	c := f.c()
	bits, signed, isInt := intInfo(xt)
	switch op {
	case token.EQL, token.NEQ:
		var e string
		switch xt.Underlying().(type) {
		case *types.Slice:
			// only comparison with nil is legal
			if x.T == "(mk-slice 0 0 0 0)" {
				e = fmt.Sprintf("(= (s.ref %s) 0)", y.T)
			} else {
				e = fmt.Sprintf("(= (s.ref %s) 0)", x.T)
			}
		case *types.Interface:
			if y.T == "(mk-iface 0 0)" {
				e = fmt.Sprintf("(= (i.tid %s) 0)", x.T)
				if x.Dyn != nil {
					e = "false"
				}
			} else if x.T == "(mk-iface 0 0)" {
				e = fmt.Sprintf("(= (i.tid %s) 0)", y.T)
			} else {
				e = eq(x.T, y.T)
			}
		case *types.Signature:
			if x.Fn != nil || y.Fn != nil {
				e = "false" // comparison with nil of a known function value
			} else {
				e = eq(x.T, y.T)
			}
		default:
			if x.T == "" || y.T == "" {
				e = c.freshConst("cmp", "Bool")
				c.note("abstraction: comparison of interior pointers in %s", f.fn)
			} else {
				e = eq(x.T, y.T)
			}
		}
		if op == token.NEQ {
			e = not(e)
		}
		return tv(e)
	case token.LSS, token.LEQ, token.GTR, token.GEQ:
		o := map[token.Token]string{token.LSS: "<", token.LEQ: "<=", token.GTR: ">", token.GEQ: ">="}[op]
		if b, ok := xt.Underlying().(*types.Basic); ok && b.Info()&types.IsString != 0 {
			c.useStrings = true
			switch op {
			case token.LSS:
				return tv("(str.< " + x.T + " " + y.T + ")")
			case token.LEQ:
				return tv("(str.<= " + x.T + " " + y.T + ")")
			case token.GTR:
				return tv("(str.< " + y.T + " " + x.T + ")")
			default:
				return tv("(str.<= " + y.T + " " + x.T + ")")
			}
		}
		if !isInt {
			return tv(c.freshConst("fcmp", "Bool"))
		}
		return tv("(" + o + " " + x.T + " " + y.T + ")")
	case token.LAND:
		return tv(and(x.T, y.T))
	case token.LOR:
		return tv(or(x.T, y.T))
	}
	if b, ok := xt.Underlying().(*types.Basic); ok && b.Info()&types.IsString != 0 && op == token.ADD {
		c.useStrings = true
		return tv("(str.++ " + x.T + " " + y.T + ")")
	}
	if !isInt {
		return f.havocValue("fop", rt, st, g)
	}
	lo, hi := intRange(bits, signed)
	exact := func(t string) SV {
		if f.x.nowrapOn() {
			c.oblige("nowrap", f.sweepTags(), g, fmt.Sprintf("(and (<= %s %s) (<= %s %s))", lo, t, t, hi), f.where(in), "arithmetic result stays in range of "+xt.String())
			return tv(t)
		}
		return tv("")
	}
	switch op {
	case token.ADD:
		s := "(+ " + x.T + " " + y.T + ")"
		if a, ok := isNum(x.T); ok {
			if b, ok := isNum(y.T); ok {
				return tv(wrap(num(a+b), bits, signed))
			}
		}
		if r := exact(s); r.T != "" {
			return r
		}
		if signed {
			return tv(fmt.Sprintf("(ite (> %[1]s %[2]s) (- %[1]s %[4]s) (ite (< %[1]s %[3]s) (+ %[1]s %[4]s) %[1]s))", s, hi, lo, pow2s(bits)))
		}
		return tv(fmt.Sprintf("(ite (> %[1]s %[2]s) (- %[1]s %[3]s) %[1]s)", s, hi, pow2s(bits)))
	case token.SUB:
		s := "(- " + x.T + " " + y.T + ")"
		if r := exact(s); r.T != "" {
			return r
		}
		if signed {
			return tv(fmt.Sprintf("(ite (> %[1]s %[2]s) (- %[1]s %[4]s) (ite (< %[1]s %[3]s) (+ %[1]s %[4]s) %[1]s))", s, hi, lo, pow2s(bits)))
		}
		return tv(fmt.Sprintf("(ite (< %[1]s 0) (+ %[1]s %[2]s) %[1]s)", s, pow2s(bits)))
	case token.MUL:
		s := "(* " + x.T + " " + y.T + ")"
		if r := exact(s); r.T != "" {
			return r
		}
		return tv(wrap(s, bits, signed))
	case token.QUO, token.REM:
		c.oblige("div", f.sweepTags(), g, fmt.Sprintf("(not (= %s 0))", y.T), f.where(in), "division by zero")
		if !signed {
			if op == token.QUO {
				return tv("(div " + x.T + " " + y.T + ")")
			}
			return tv("(mod " + x.T + " " + y.T + ")")
		}
		// truncated division
		q := fmt.Sprintf("(ite (>= %[1]s 0) (ite (> %[2]s 0) (div %[1]s %[2]s) (- (div %[1]s (- %[2]s)))) (ite (> %[2]s 0) (- (div (- %[1]s) %[2]s)) (div (- %[1]s) (- %[2]s))))", x.T, y.T)
		if op == token.QUO {
			return tv(wrap(q, bits, signed))
		}
		return tv(fmt.Sprintf("(- %s (* %s %s))", x.T, y.T, q))
	case token.AND:
		if k, ok := lowMask(y.T); ok {
			return tv("(mod " + x.T + " " + pow2s(k) + ")")
		}
		if k, ok := lowMask(x.T); ok {
			return tv("(mod " + y.T + " " + pow2s(k) + ")")
		}
		if !signed {
			// mask of the form ^(2^k-1) within the type: hi - (2^k - 1)
			for _, pr := range [][2]string{{x.T, y.T}, {y.T, x.T}} {
				if k, ok := highMask(pr[1], bits); ok {
					return tv(fmt.Sprintf("(- %s (mod %s %s))", pr[0], pr[0], pow2s(k)))
				}
				if lo2, w, ok := fieldMask(pr[1]); ok {
					// contiguous mask ((2^w-1) << lo2)
					return tv(fmt.Sprintf("(* (mod (div %s %s) %s) %s)", pr[0], pow2s(lo2), pow2s(w), pow2s(lo2)))
				}
			}
		}
		r := "(bits.and " + x.T + " " + y.T + ")"
		if !signed {
			c.assume(g, fmt.Sprintf("(and (<= 0 %[1]s) (<= %[1]s %[2]s) (<= %[1]s %[3]s))", r, x.T, y.T))
		}
		return tv(r)
	case token.AND_NOT:
		if k, ok := lowMask(y.T); ok {
			return tv(fmt.Sprintf("(- %s (mod %s %s))", x.T, x.T, pow2s(k)))
		}
		r := "(bits.and " + x.T + " (bits.not" + strconv.Itoa(bits) + " " + y.T + "))"
		c.declFun("bits.not"+strconv.Itoa(bits), []string{"Int"}, "Int")
		if !signed {
			c.assume(g, fmt.Sprintf("(and (<= 0 %[1]s) (<= %[1]s %[2]s))", r, x.T))
		}
		return tv(r)
	case token.OR:
		if x.T == "0" {
			return y
		}
		if y.T == "0" {
			return x
		}
		if !signed {
			// operands with known disjoint bit footprints (byte packing): x|y == x+y
			if xl, xh, ok := c.bitsOf(x.T); ok {
				if yl, yh, ok := c.bitsOf(y.T); ok && (xh <= yl || yh <= xl) {
					r := "(+ " + x.T + " " + y.T + ")"
					c.noteBits(r, mini(xl, yl), maxi2(xh, yh))
					return tv(r)
				}
			}
		}
		r := "(bits.or " + x.T + " " + y.T + ")"
		if !signed {
			c.assume(g, fmt.Sprintf("(and (>= %[1]s %[2]s) (>= %[1]s %[3]s) (<= %[1]s (+ %[2]s %[3]s)) (<= %[1]s %[4]s))", r, x.T, y.T, hi))
			// disjoint-bits case: x multiple of 2^k and y < 2^k  ==> x|y = x+y  (common in byte packing)
			c.assume(g, fmt.Sprintf("(=> (= (bits.and %[2]s %[3]s) 0) (= %[1]s (+ %[2]s %[3]s)))", r, x.T, y.T))
		}
		return tv(r)
	case token.XOR:
		r := "(bits.xor " + x.T + " " + y.T + ")"
		if !signed {
			c.assume(g, fmt.Sprintf("(and (<= 0 %[1]s) (<= %[1]s %[2]s))", r, hi))
		}
		return tv(r)
	case token.SHL:
		if k, ok := isNum(y.T); ok {
			if k >= int64(bits) {
				return tv("0")
			}
			s := "(* " + x.T + " " + pow2s(int(k)) + ")"
			if xl, xh, ok := c.bitsOf(x.T); ok && !signed && xh+int(k) <= bits {
				// the shifted value keeps all its bits: no wrap
				c.noteBits(s, xl+int(k), xh+int(k))
				return tv(s)
			}
			if r := exact(s); r.T != "" {
				return r
			}
			return tv(wrap(s, bits, signed))
		}
		r := c.freshConst("shl", "Int")
		c.assume(g, fmt.Sprintf("(and (<= %s %s) (<= %s %s))", lo, r, r, hi))
		c.assume(g, fmt.Sprintf("(=> (= %s 0) (= %s %s))", y.T, r, x.T))
		c.note("abstraction: shift by non-constant amount in %s (result only range-constrained)", f.fn)
		return tv(r)
	case token.SHR:
		if k, ok := isNum(y.T); ok {
			if k >= int64(bits) && !signed {
				return tv("0")
			}
			return tv("(div " + x.T + " " + pow2s(int(k)) + ")")
		}
		r := c.freshConst("shr", "Int")
		if signed {
			c.assume(g, fmt.Sprintf("(and (<= %s %s) (<= %s %s))", lo, r, r, hi))
		} else {
			c.assume(g, fmt.Sprintf("(and (<= 0 %s) (<= %s %s))", r, r, x.T))
		}
		c.assume(g, fmt.Sprintf("(=> (= %s 0) (= %s %s))", y.T, r, x.T))
		c.note("abstraction: shift by non-constant amount in %s (result only range-constrained)", f.fn)
		return tv(r)
	}
	panic("binop " + op.String())
}

func highMask(s string, bits int) (int, bool) {
	if !pow2Re.MatchString(s) {
		return 0, false
	}
	for k := 1; k < bits; k++ {
		// 2^bits - 2^k
		if decSub(pow2s(bits), pow2s(k)) == s {
			return k, true
		}
	}
	return 0, false
}

func fieldMask(s string) (lo, w int, ok bool) {
	if !pow2Re.MatchString(s) || len(s) > 20 {
		return
	}
	v, err := strconv.ParseUint(s, 10, 64)
	if err != nil || v == 0 {
		return
	}
	for v&1 == 0 {
		v >>= 1
		lo++
	}
	for v&1 == 1 {
		v >>= 1
		w++
	}
	if v != 0 || lo == 0 {
		return 0, 0, false
	}
	return lo, w, true
}

func decSub(a, b string) string {
	x, _ := strconv.ParseUint(a, 10, 64)
	y, _ := strconv.ParseUint(b, 10, 64)
	if a == pow2s(64) {
		return strconv.FormatUint(^uint64(0)-y+1, 10)
	}
	return strconv.FormatUint(x-y, 10)
}

func (x *Exec) nowrapOn() bool { return x.nowrap }

func (f *Frame) convert(in ssa.Instruction, x SV, from, to types.Type, st *State, g string) SV {
	c := f.c()
	fb, fs, fInt := intInfo(from)
	tb, ts, tInt := intInfo(to)
	if fInt && tInt {
		if n, ok := isNum(x.T); ok {
			_ = n
		}
		// widening of in-range values is the identity
		if (fs == ts && tb >= fb) || (!fs && ts && tb > fb) {
			if !fs && x.T != "" {
				c.noteBits(x.T, 0, fb)
			}
			return x
		}
		if f.x.nowrapOn() && f.x.root != nil && f.x.root.contract != nil && f.x.root.contract.Flags["exact"] != "" {
			lo, hi := intRange(tb, ts)
			c.oblige("exact", f.sweepTags(), g, fmt.Sprintf("(and (<= %s %s) (<= %s %s))", lo, x.T, x.T, hi), f.where(in), "narrowing conversion to "+to.String()+" preserves the value")
			return x
		}
		return tv(wrap(x.T, tb, ts))
	}
	_, toSlice := to.Underlying().(*types.Slice)
	_, fromSlice := from.Underlying().(*types.Slice)
	fbasic, _ := from.Underlying().(*types.Basic)
	tbasic, _ := to.Underlying().(*types.Basic)
	switch {
	case fbasic != nil && fbasic.Info()&types.IsString != 0 && toSlice:
		// []byte(s)
		c.useStrings = true
		r := st.alloc()
		sl := fmt.Sprintf("(mk-slice %s 0 (str.len %s) (str.len %s))", r, x.T, x.T)
		elem := to.Underlying().(*types.Slice).Elem()
		if _, _, ok := intInfo(elem); ok && typeKey(elem) != "rune" && typeKey(elem) != "int32" {
			arr := sel(st.get(c.elemHeap(elem)), r)
			c.assume(g, eq(app("bv.of", arr, "0", "(str.len "+x.T+")"), app("bv.ofstr", x.T)))
			c.quant = true
			j := qsym(c.freshName("j"))
			c.assume(g, fmt.Sprintf("(forall ((%[1]s Int)) (! (=> (and (<= 0 %[1]s) (< %[1]s (str.len %[2]s))) (= (select %[3]s %[1]s) (str.to_code (str.at %[2]s %[1]s)))) :pattern ((select %[3]s %[1]s))))", j, x.T, arr))
		}
		return tv(sl)
	case fromSlice && tbasic != nil && tbasic.Info()&types.IsString != 0:
		c.useStrings = true
		elem := from.Underlying().(*types.Slice).Elem()
		arr := sel(st.get(c.elemHeap(elem)), "(s.ref "+x.T+")")
		s := app("bv.tostr", app("bv.of", arr, "(s.off "+x.T+")", "(s.len "+x.T+")"))
		c.assume(g, fmt.Sprintf("(= (str.len %s) (s.len %s))", s, x.T))
		return tv(s)
	case fbasic != nil && tbasic != nil && fbasic.Info()&types.IsString != 0 && tbasic.Info()&types.IsString != 0:
		return x
	case fInt && tbasic != nil && tbasic.Info()&types.IsString != 0:
		c.useStrings = true
		return tv(c.freshConst("runestr", "String"))
	}
	if c.sortOf(from) == c.sortOf(to) && x.T != "" {
		if _, isF := to.Underlying().(*types.Basic); !isF || c.sortOf(to) != "Float" {
			return x
		}
	}
	return f.havocValue("conv", to, st, g)
}

// ---------------------------------------------------------------------------------------------
// calls

func (f *Frame) call(in ssa.Instruction, cc *ssa.CallCommon, st *State, g string) SV {
	var args []SV
	for _, a := range cc.Args {
		args = append(args, f.val(a, st))
	}
	var fnv SV
	if _, isB := cc.Value.(*ssa.Builtin); !isB {
		fnv = f.val(cc.Value, st)
	}
	return f.callResolved(in, cc, fnv, args, st, g)
}

func resultType(cc *ssa.CallCommon) types.Type {
	sig := cc.Signature()
	switch sig.Results().Len() {
	case 0:
		return nil
	case 1:
		return sig.Results().At(0).Type()
	}
	return sig.Results()
}

func (f *Frame) callResolved(in ssa.Instruction, cc *ssa.CallCommon, fnv SV, args []SV, st *State, g string) SV {
	c := f.c()
	if b, ok := cc.Value.(*ssa.Builtin); ok {
		return f.builtin(in, b, cc, args, st, g)
	}
	if cc.IsInvoke() {
		recv := fnv
		if recv.Dyn != nil {
			ms := f.x.P.SSA.MethodSets.MethodSet(recv.Dyn)
			if sel := ms.Lookup(cc.Method.Pkg(), cc.Method.Name()); sel != nil {
				if fn := f.x.P.SSA.MethodValue(sel); fn != nil {
					rv := *recv.DynV
					return f.staticCall(in, fn, nil, append([]SV{rv}, args...), cc, st, g)
				}
			}
		}
		if rc := f.x.root; rc != nil && rc.contract != nil && f == rc {
			// atcall clauses also apply to interface method calls (p0 = receiver, p1.. = arguments)
			for _, cl := range rc.contract.CallSpecs["@"+cc.Method.Name()] {
				e := rc.specEnv(st, rc.entrySt, nil)
				e.vars["p0"] = specVar{sv: recv, typ: cc.Value.Type()}
				sg := cc.Signature()
				for i, a := range args {
					if i < sg.Params().Len() {
						e.vars[fmt.Sprintf("p%d", i+1)] = specVar{sv: a, typ: sg.Params().At(i).Type()}
					}
				}
				e.prove = true
				c.oblige("atcall", cl.Tags, g, e.boolClause(cl), f.where(in), "at call of "+cc.Method.Name()+": "+cl.Text)
			}
		}
		c.oblige("nilinvoke", f.sweepTags(), g, fmt.Sprintf("(not (= (i.tid %s) 0))", recv.T), f.where(in), "method call on nil interface value ("+cc.Method.Name()+")")
		key := ifaceMethodKey(cc)
		if ct := f.x.S.Contracts[key]; ct != nil {
			return f.applyContract(in, ct, nil, cc.Signature(), append([]SV{recv}, args...), cc, st, g, key)
		}
		return f.havocCall(in, key, append([]SV{recv}, args...), cc, st, g)
	}
	if fnv.Fn != nil {
		return f.staticCall(in, fnv.Fn.Fn, fnv.Fn.Bind, args, cc, st, g)
	}
	// call of an unknown function value
	if fnv.T != "" {
		c.oblige("nilcall", f.sweepTags(), g, fmt.Sprintf("(not (= %s 0))", fnv.T), f.where(in), "call of nil function value")
		if fv, ok := f.x.fnAt[fnv.T]; ok {
			return f.staticCall(in, fv.Fn, fv.Bind, args, cc, st, g)
		}
	}
	// a function-typed parameter of the function under contract: check its call specification
	if par, ok := cc.Value.(*ssa.Parameter); ok && f.isRoot && f.contract != nil {
		for _, cl := range f.contract.CallSpecs[par.Name()] {
			e := f.specEnv(st, f.entrySt, nil)
			sig := cc.Signature()
			for i, a := range args {
				if i < sig.Params().Len() {
					e.vars[fmt.Sprintf("p%d", i)] = specVar{sv: a, typ: sig.Params().At(i).Type()}
				}
			}
			e.prove = true
			c.oblige("callspec", cl.Tags, g, e.boolClause(cl), f.where(in), "guarantee at call of parameter "+par.Name()+": "+cl.Text)
		}
	}
	// a function value read from a struct field (e.g. backend.MakeReader(...)): `callspec <Field> requires ...`
	if u, ok := cc.Value.(*ssa.UnOp); ok && u.Op == token.MUL && f.isRoot && f.contract != nil {
		if fa, ok := u.X.(*ssa.FieldAddr); ok {
			if pt, ok := fa.X.Type().Underlying().(*types.Pointer); ok {
				if stt, ok := pt.Elem().Underlying().(*types.Struct); ok {
					fname := stt.Field(fa.Field).Name()
					for _, cl := range f.contract.CallSpecs[fname] {
						e := f.specEnv(st, f.entrySt, nil)
						sig := cc.Signature()
						for i, a := range args {
							if i < sig.Params().Len() {
								e.vars[fmt.Sprintf("p%d", i)] = specVar{sv: a, typ: sig.Params().At(i).Type()}
							}
						}
						e.prove = true
						c.oblige("callspec", cl.Tags, g, e.boolClause(cl), f.where(in), "guarantee at call of function field "+fname+": "+cl.Text)
					}
				}
			}
		}
	}
	return f.havocCall(in, "func-value:"+cc.Value.Name(), args, cc, st, g)
}

func ifaceMethodKey(cc *ssa.CallCommon) string {
	t := cc.Value.Type()
	if n, ok := t.(*types.Named); ok {
		p := ""
		if n.Obj().Pkg() != nil {
			p = n.Obj().Pkg().Path() + "."
		}
		return p + n.Obj().Name() + "." + cc.Method.Name()
	}
	return t.String() + "." + cc.Method.Name()
}

func fnSize(fn *ssa.Function) int {
	n := 0
	for _, b := range fn.Blocks {
		n += len(b.Instrs)
	}
	return n
}

func (f *Frame) staticCall(in ssa.Instruction, fn *ssa.Function, binds []SV, args []SV, cc *ssa.CallCommon, st *State, g string) SV {
	x := f.x
	c := f.c()
	key := funcKey(fn)
	if fn.Origin() != nil {
		key = funcKey(fn.Origin())
	}
	if rc := x.root; rc != nil && rc.contract != nil && f == rc {
		for _, cl := range rc.contract.CallSpecs["@"+fn.Name()] {
			e := rc.specEnv(st, rc.entrySt, nil)
			for i, a := range args {
				if i < len(fn.Params) {
					e.vars[fmt.Sprintf("p%d", i)] = specVar{sv: a, typ: fn.Params[i].Type()}
				}
			}
			e.prove = true
			c.oblige("atcall", cl.Tags, g, e.boolClause(cl), f.where(in), "at call of "+fn.Name()+": "+cl.Text)
		}
	}
	if fn.Synthetic == "package initializer" && fn.Pkg != f.fn.Pkg {
		// the initializer of an imported package: imports are acyclic, so it cannot read or write the state of the
		// package being initialised (nor anything only reachable from it); its effect on its own package is not modelled
		x.usedStub["model: initializers of imported packages do not touch the importing package's variables"] = true
		return SV{}
	}
	if m, ok := intrinsics[key]; ok {
		if r, handled := m(f, in, args, cc, st, g); handled {
			return r
		}
	}
	if ct := x.S.Contracts[key]; ct != nil && ct.Flags["inline"] == "" {
		return f.applyContract(in, ct, fn, fn.Signature, args, cc, st, g, key)
	}
	// inline
	if len(fn.Blocks) > 0 {
		inStack := false
		for _, s := range f.stack {
			if s == key {
				inStack = true
			}
		}
		ok := !inStack && f.depth < x.maxDepth
		if ok && !inRepo(fn) && fn.Synthetic == "" {
			hs, _ := loopHeaders(fn)
			ok = fnSize(fn) <= 60 && len(hs) == 0 && f.depth < x.maxDepth-1 && !strings.HasPrefix(key, "fmt.") && !strings.HasPrefix(key, "reflect.")
		}
		if ok && inRepo(fn) && fnSize(fn) > 400 {
			ok = false
		}
		if ok {
			x.inlined[key] = true
			name := "v"
			if v, isv := in.(ssa.Value); isv {
				name = v.Name()
			} else {
				name = fmt.Sprintf("i%d", c.fresh)
				c.fresh++
			}
			nf := &Frame{x: x, fn: fn, prefix: f.prefix + "/" + name + ":" + fn.Name(), env: map[ssa.Value]SV{}, depth: f.depth + 1,
				stack: append(append([]string{}, f.stack...), key), parent: f, callBlock: in.Block()}
			for i, fv := range fn.FreeVars {
				if i < len(binds) {
					nf.env[fv] = binds[i]
				}
			}
			res, out, reach := nf.run(args, st, g)
			_ = reach
			st.heap = out.heap
			st.marks = out.marks
			st.views = out.views
			switch len(res) {
			case 0:
				return SV{}
			case 1:
				return res[0]
			}
			return SV{Tup: res}
		}
	}
	return f.havocCall(in, key, args, cc, st, g)
}

// havocTargets lists heap cells directly referenced by the arguments (depth 1).
func (f *Frame) havocArg(a SV, t types.Type, st *State, g, where string, readonly bool) {
	c := f.c()
	if readonly {
		return
	}
	if a.A != nil {
		nv := c.freshConst("hv", c.sortOf(a.A.Typ))
		c.assume(g, c.wf(a.A.Typ, nv, st.wm()))
		f.storeAddr(st, a.A, nv, g, where)
		return
	}
	if a.T == "" {
		return
	}
	switch u := t.Underlying().(type) {
	case *types.Pointer:
		if s, ok := u.Elem().Underlying().(*types.Struct); ok {
			for i := 0; i < s.NumFields(); i++ {
				h := c.fieldHeap(u.Elem(), i)
				f.x.frameCheck(st, h, a.T, g, where)
				nv := c.freshConst("hv", c.sortOf(s.Field(i).Type()))
				c.assert(c.wf(s.Field(i).Type(), nv, st.wm()))
				st.set(h, ite(fmt.Sprintf("(= %s 0)", a.T), st.get(h), sto(st.get(h), a.T, nv)))
			}
		} else {
			h := c.boxHeap(u.Elem())
			f.x.frameCheck(st, h, a.T, g, where)
			nv := c.freshConst("hv", c.sortOf(u.Elem()))
			c.assert(c.wf(u.Elem(), nv, st.wm()))
			st.set(h, sto(st.get(h), a.T, nv))
		}
	case *types.Slice:
		h := c.elemHeap(u.Elem())
		f.x.frameCheck(st, h, "(s.ref "+a.T+")", and(g, "(> (s.len "+a.T+") 0)"), where, c.sOff(a.T), c.simplify("(+ "+c.sOff(a.T)+" "+c.sLen(a.T)+")"))
		nv := c.freshConst("hv", "(Array Int "+c.sortOf(u.Elem())+")")
		if w := c.wf(u.Elem(), "(select "+nv+" k!)", st.wm()); w != "true" {
			c.quant = true
			c.assert("(forall ((k! Int)) (! " + w + " :pattern ((select " + nv + " k!))))")
		}
		st.set(h, sto(st.get(h), "(s.ref "+a.T+")", nv))
	case *types.Map:
		has, val, ln := c.mapHeaps(u)
		f.x.frameCheck(st, has, a.T, g, where)
		for _, h := range []string{has, val, ln} {
			srt := c.heapSort[h]
			inner := strings.TrimSuffix(strings.TrimPrefix(srt, "(Array Int "), ")")
			nv := c.freshConst("hv", inner)
			st.set(h, ite(fmt.Sprintf("(= %s 0)", a.T), st.get(h), sto(st.get(h), a.T, nv)))
		}
	case *types.Interface:
		if a.Dyn != nil && a.DynV != nil {
			f.havocArg(*a.DynV, a.Dyn, st, g, where, readonly)
		}
	}
}

func (f *Frame) havocCall(in ssa.Instruction, key string, args []SV, cc *ssa.CallCommon, st *State, g string) SV {
	_ = f.c()
	f.x.havocked[key] = true
	f.x.syncViews(st)
	sig := cc.Signature()
	where := f.where(in)
	st.bumpWM()
	off := 0
	if cc.IsInvoke() || sig.Recv() != nil {
		// receiver first
		if len(args) > 0 {
			var rt types.Type
			if cc.IsInvoke() {
				rt = cc.Value.Type()
			} else {
				rt = sig.Recv().Type()
			}
			f.havocArg(args[0], rt, st, g, where, false)
			off = 1
		}
	}
	for i := 0; i < sig.Params().Len() && i+off < len(args); i++ {
		f.havocArg(args[i+off], sig.Params().At(i).Type(), st, g, where, false)
	}
	f.x.syncViews(st)
	rt := resultType(cc)
	if rt == nil {
		return SV{}
	}
	base := "call"
	if v, ok := in.(ssa.Value); ok {
		base = f.prefix + "/" + v.Name()
	}
	return f.havocValue(base, rt, st, g)
}

// applyContract: assert requires, havoc the assigns set, assume ensures.
// applyContract applies a callee contract at a call site. A pointer argument that addresses the interior of
// another object (&s.Embedded) has no reference of its own in the heap model: it is passed by copy-in /
// copy-out through a fresh object (sound when the callee neither retains the pointer nor reaches the same
// interior through another path; listed as an abstraction).
func (f *Frame) applyContract(in ssa.Instruction, ct *Contract, fn *ssa.Function, sig *types.Signature, args []SV, cc *ssa.CallCommon, st *State, g string, key string) SV {
	c := f.c()
	type cb struct {
		addr   *Addr
		ref    string
		t      types.Type
		before []string
	}
	var cbs []cb
	var ptl []types.Type
	if fn != nil {
		for _, p := range fn.Params {
			ptl = append(ptl, p.Type())
		}
	}
	args = append([]SV(nil), args...)
	for i := range args {
		if args[i].A == nil || args[i].T != "" || i >= len(ptl) {
			continue
		}
		pt, ok := ptl[i].Underlying().(*types.Pointer)
		if !ok {
			continue
		}
		s, ok := pt.Elem().Underlying().(*types.Struct)
		if !ok {
			continue
		}
		c.note("abstraction: interior pointer passed to %s by copy-in/copy-out in %s", key, f.fn)
		r := st.alloc()
		v := f.loadAddr(st, args[i].A)
		var before []string
		for k := 0; k < s.NumFields(); k++ {
			h := c.fieldHeap(pt.Elem(), k)
			st.set(h, sto(st.get(h), r, c.projField(pt.Elem(), v, k)))
			before = append(before, st.get(h))
		}
		cbs = append(cbs, cb{args[i].A, r, pt.Elem(), before})
		args[i] = SV{T: r}
	}
	res := f.applyContract0(in, ct, fn, sig, args, cc, st, g, key)
	for _, b := range cbs {
		s := b.t.Underlying().(*types.Struct)
		changed := false
		for k := 0; k < s.NumFields(); k++ {
			if st.get(c.fieldHeap(b.t, k)) != b.before[k] {
				changed = true
			}
		}
		if changed {
			f.storeAddr(st, b.addr, f.loadStruct(st, b.t, b.ref), g, f.where(in))
		}
	}
	return res
}

func (f *Frame) applyContract0(in ssa.Instruction, ct *Contract, fn *ssa.Function, sig *types.Signature, args []SV, cc *ssa.CallCommon, st *State, g string, key string) SV {
	c := f.c()
	x := f.x
	x.usedStub[key] = true
	x.syncViews(st)
	where := f.where(in)
	params := map[string]SV{}
	ptypes := map[string]types.Type{}
	var names []string
	var ptlist []types.Type
	if fn != nil {
		for _, p := range fn.Params {
			names = append(names, p.Name())
			ptlist = append(ptlist, p.Type())
		}
	} else {
		names = append(names, "self")
		ptlist = append(ptlist, cc.Value.Type())
		for i := 0; i < sig.Params().Len(); i++ {
			n := sig.Params().At(i).Name()
			if n == "" || n == "_" {
				n = fmt.Sprintf("p%d", i)
			}
			names = append(names, n)
			ptlist = append(ptlist, sig.Params().At(i).Type())
		}
	}
	if len(ct.Params) > 0 {
		for i := range names {
			if i < len(ct.Params) {
				names[i] = ct.Params[i]
			}
		}
	}
	for i, n := range names {
		if i < len(args) {
			params[n] = args[i]
			ptypes[n] = ptlist[i]
		}
	}
	old := st.clone()
	st.bumpWM()
	mk := func(cur *State, results []SV) *SpecEnv {
		e := &SpecEnv{x: x, c: c, st: cur, old: old, vars: map[string]specVar{}, pkg: pkgOf(fn, ct), guard: g, freshBase: old.wm()}
		for n, v := range params {
			e.vars[n] = specVar{sv: v, typ: ptypes[n]}
		}
		res := sig.Results()
		for i := 0; i < res.Len() && i < len(results); i++ {
			n := res.At(i).Name()
			if n != "" && n != "_" {
				e.vars[n] = specVar{sv: results[i], typ: res.At(i).Type()}
			}
			e.vars[fmt.Sprintf("result%d", i)] = specVar{sv: results[i], typ: res.At(i).Type()}
			if i == 0 {
				e.vars["result"] = specVar{sv: results[i], typ: res.At(i).Type()}
			}
			if i == res.Len()-1 && types.Identical(res.At(i).Type(), types.Universe.Lookup("error").Type()) {
				if _, has := e.vars["err"]; !has {
					e.vars["err"] = specVar{sv: results[i], typ: res.At(i).Type()}
				}
			}
		}
		return e
	}
	for _, r := range ct.Requires {
		if hasTag(r.Tags, "assume") {
			// a validity assumption on the inputs of the whole computation: used inside the callee, not demanded of callers
			c.note("assumption: precondition of %s not demanded at its call sites: %s", key, r.Text)
			continue
		}
		e := mk(st, nil)
		c.oblige("requires", r.Tags, g, e.boolClause(r), where, "precondition of "+key+": "+r.Text)
	}
	// frame
	if len(ct.Assigns) == 0 && !ct.External && !ct.Trusted {
		// no frame stated for an in-repo contract: depth-1 havoc of the arguments
		for i, n := range names {
			if i < len(args) {
				f.havocArg(args[i], ptypes[n], st, g, where, false)
			}
		}
	} else {
		for _, a := range ct.Assigns {
			txt := strings.TrimSpace(a.Text)
			if txt == "nothing" || txt == "fresh" || txt == "" {
				continue
			}
			e := mk(old, nil)
			for _, part := range splitTop(txt, ',') {
				ts, err := e.assignTarget(strings.TrimSpace(part))
				if err != nil {
					panic(specError{fmt.Sprintf("%s: %v", a.Src, err)})
				}
				for _, t := range ts {
					// a target reached through a nil pointer denotes nothing (writing through it would panic)
					if t.lo != "" {
						x.frameCheck(st, t.heap, t.ref, and(g, "(not (= "+t.ref+" 0))", c.simplify("(< "+t.lo+" "+t.hi+")")), where, t.lo, t.hi)
					} else {
						x.frameCheck(st, t.heap, t.ref, and(g, "(not (= "+t.ref+" 0))"), where)
					}
					srt := c.heapSort[t.heap]
					inner := strings.TrimSuffix(strings.TrimPrefix(srt, "(Array Int "), ")")
					if t.lo != "" {
						// only the element window [lo, hi) of the backing array may change
						cur := sel(st.get(t.heap), t.ref)
						es := strings.TrimSuffix(strings.TrimPrefix(inner, "(Array Int "), ")")
						cellT := c.heapCellT[t.heap]
						var nv string
						wn, wok := isNum(c.simplify("(- " + t.hi + " " + t.lo + ")"))
						if !wok {
							if lb, lk, _ := splitIdx(t.lo); true {
								if hb, hk, _ := splitIdx(t.hi); hb == lb {
									wn, wok = hk-lk, true
								}
							}
						}
						if n, ok := wn, wok; ok && n >= 0 && n <= 128 {
							nv = cur
							for k := int64(0); k < n; k++ {
								ev := c.freshConst("asge", es)
								if cellT != nil {
									c.assert(c.wf(cellT, ev, st.wm()))
								}
								nv = sto(nv, c.simplify(fmt.Sprintf("(+ %s %d)", t.lo, k)), ev)
							}
						} else {
							nv = c.freshConst("asg", inner)
							c.quant = true
							body := "(= (select " + nv + " k!) (select " + cur + " k!))"
							c.assert("(forall ((k! Int)) (! (=> (or (< k! " + t.lo + ") (>= k! " + t.hi + ")) " + body + ") :pattern ((select " + nv + " k!))))")
							if cellT != nil {
								if w := c.wf(cellT, "(select "+nv+" k!)", st.wm()); w != "true" {
									c.assert("(forall ((k! Int)) (! " + w + " :pattern ((select " + nv + " k!))))")
								}
							}
						}
						if os.Getenv("GOVC_ITE") != "" {
							st.set(t.heap, ite("(= "+t.ref+" 0)", st.get(t.heap), sto(st.get(t.heap), t.ref, nv)))
						} else {
							st.set(t.heap, sto(st.get(t.heap), t.ref, nv)) // (elements of the nil slice, object 0, are never read)
						}
						continue
					}
					nv := c.freshConst("asg", inner)
					if ct := c.heapCellT[t.heap]; ct != nil {
						if c.heapDims[t.heap] == 1 {
							c.assert(c.wf(ct, nv, st.wm()))
						} else if w := c.wf(ct, "(select "+nv+" k!)", st.wm()); w != "true" {
							c.quant = true
							c.assert("(forall ((k! " + c.heapKeyS[t.heap] + ")) (! " + w + " :pattern ((select " + nv + " k!))))")
						}
					}
					st.set(t.heap, ite("(= "+t.ref+" 0)", st.get(t.heap), sto(st.get(t.heap), t.ref, nv)))
				}
			}
		}
	}

	// results
	var results []SV
	res := sig.Results()
	base := "call"
	if v, ok := in.(ssa.Value); ok {
		base = f.prefix + "/" + v.Name()
	}
	for i := 0; i < res.Len(); i++ {
		results = append(results, f.havocValue(fmt.Sprintf("%s.r%d", base, i), res.At(i).Type(), st, g))
	}
	if ct.Flags["pure"] != "" && res.Len() >= 1 {
		// results are functions of the arguments
		ok := true
		var as, sorts []string
		for i, a := range args {
			if a.T == "" {
				ok = false
				break
			}
			as = append(as, a.T)
			sorts = append(sorts, c.sortOf(ptlist[i]))
		}
		if ok {
			for i := 0; i < res.Len(); i++ {
				fnm := c.declFun(fmt.Sprintf("pure:%s#%d", key, i), sorts, c.sortOf(res.At(i).Type()))
				c.assume(g, eq(results[i].T, app(fnm, as...)))
			}
		}
	}
	// A *bytes.Buffer handed to a callee as a plain writer: the callee's contract speaks about the writer's log only
	// (wrLen/wrLog) and does not list rdLeft, i.e. it never reads from it; the buffer's unread length then grows by
	// exactly the number of bytes the call appended.
	type bufSync struct{ ref, oldLen string }
	var bufSyncs []bufSync
	if gl := ct.Flags["modifies"]; gl != "" && regexp.MustCompile(`\bwrLen\b`).MatchString(gl) && !regexp.MustCompile(`\brdLeft\b|\*`).MatchString(gl) {
		if _, ok := x.S.GhostVars["rdLeft"]; ok {
			for _, a := range args {
				if a.Dyn != nil && a.DynV != nil && a.DynV.T != "" && strings.HasSuffix(a.Dyn.String(), "*bytes.Buffer") {
					wl := c.ghostVar("wrLen", "(Array Int Int)")
					bufSyncs = append(bufSyncs, bufSync{a.DynV.T, sel(st.get(wl), a.DynV.T)})
				}
			}
		}
	}
	defer func() {
		for _, b := range bufSyncs {
			wl := c.ghostVar("wrLen", "(Array Int Int)")
			rd := c.ghostVar("rdLeft", "(Array Int Int)")
			st.set(rd, sto(st.get(rd), b.ref, fmt.Sprintf("(+ %s (- %s %s))", sel(st.get(rd), b.ref), sel(st.get(wl), b.ref), b.oldLen)))
			x.usedStub["model: a *bytes.Buffer passed as io.Writer to a function whose contract only writes (wrLen, wrLog) grows its unread length by the bytes appended"] = true
		}
	}()
	// ghost updates: "ensures" may mention ghost variables in post-state; havoc those the contract lists
	if gl := ct.Flags["modifies"]; gl != "" {
		names := strings.Fields(strings.ReplaceAll(gl, ",", " "))
		if len(names) == 1 && names[0] == "*" {
			names = nil
			for gname := range x.S.GhostVars {
				names = append(names, gname)
			}
			sort.Strings(names)
		}
		for _, gname := range names {
			srt, ok := x.S.GhostVars[gname]
			if !ok {
				panic(specError{fmt.Sprintf("%s: unknown ghost variable %s", ct.Src, gname)})
			}
			srt = x.resolveSort(srt)
			h := c.ghostVar(gname, srt)
			st.heap[h] = c.freshConst("g:"+gname, srt)
		}
	}
	// untracked ghost variables say something only about the most recent call that mentions them: such a call
	// gives them new, unknown values first (its ghostsets / ensures then pin them)
	{
		var un []string
		for gname := range x.S.GhostUntracked {
			// ... at calls whose contract speaks about the variable (sets it or states something about it)
			if contractMentions(ct, gname) {
				un = append(un, gname)
			}
		}
		sort.Strings(un)
		for _, gname := range un {
			srt := x.resolveSort(x.S.GhostVars[gname])
			h := c.ghostVar(gname, srt)
			st.heap[h] = c.freshConst("g:"+gname, srt)
		}
	}
	e := mk(st, results)
	e.ghostSets(ct, st, g)
	e = mk(st, results)
	for _, en := range ct.Ensures {
		if hasTag(en.Tags, "internal") {
			continue // speaks about the callee's locals: proved there, not part of what callers learn
		}
		// ghost parameters were arbitrary when the callee was verified: the clause holds for all of them
		var bound []string
		ee := e
		c.curOpaque = ""
		for _, tg := range en.Tags {
			if strings.HasPrefix(tg, "opaque:") {
				c.curOpaque = strings.TrimPrefix(tg, "opaque:")
			}
		}
		for _, gp := range ct.GhostParams {
			if regexp.MustCompile(`\b` + regexp.QuoteMeta(gp[0]) + `\b`).MatchString(en.Text) {
				bn := qsym(c.freshName("gp_" + gp[0]))
				ee = ee.bind(gp[0], specVar{sv: tv(bn), sort: gp[1]})
				bound = append(bound, "("+bn+" "+gp[1]+")")
			}
		}
		t := ee.boolClause(en)
		if len(bound) > 0 {
			c.quant = true
			if len(bound) == 1 && strings.HasSuffix(bound[0], " Int)") {
				// index-like ghost parameter: reads at base+param become patterns (see shiftQuant)
				bn := strings.TrimSuffix(strings.TrimPrefix(bound[0], "("), " Int)")
				jn := qsym(c.freshName("j_gp"))
				if nb, pats, ok := shiftQuant(t, bn, jn); ok {
					var ps []string
					for _, p := range pats {
						ps = append(ps, ":pattern ("+p+")")
					}
					c.assume(g, fmt.Sprintf("(forall ((%s Int)) (! %s %s))", jn, nb, strings.Join(ps, " ")))
					continue
				}
			}
			t = "(forall (" + strings.Join(bound, " ") + ") " + t + ")"
		}
		c.assume(g, t)
	}
	c.curOpaque = ""
	if a := ct.Flags["alloc"]; a != "" {
		ex, err := parseExpr(a)
		if err != nil {
			panic(specError{ct.Src + ": " + err.Error()})
		}
		amt := e.eval(ex)
		x.chargeAllocBytes(st, g, amt.T)
	}
	x.syncViews(st)
	switch len(results) {
	case 0:
		return SV{}
	case 1:
		return results[0]
	}
	return SV{Tup: results}
}

func pkgOf(fn *ssa.Function, ct *Contract) *types.Package {
	if fn != nil && fn.Pkg != nil {
		return fn.Pkg.Pkg
	}
	if fn != nil && fn.Object() != nil {
		return fn.Object().Pkg()
	}
	return nil
}

// resource accounting (ghost)
func (x *Exec) chargeAlloc(st *State, g, count string, elem types.Type, where string) {
	sz := types.SizesFor("gc", "amd64").Sizeof(elem)
	if sz <= 0 {
		sz = 1
	}
	x.chargeAllocBytes(st, g, fmt.Sprintf("(* %d %s)", sz, count))
}

func (x *Exec) chargeAllocBytes(st *State, g, amount string) {
	h := x.c.ghostVar("$alloc", "Int")
	cur := st.get(h)
	st.set(h, ite(g, "(+ "+cur+" "+amount+")", cur))
}

// ---------------------------------------------------------------------------------------------
// builtins

func (f *Frame) builtin(in ssa.Instruction, b *ssa.Builtin, cc *ssa.CallCommon, args []SV, st *State, g string) SV {
	c := f.c()
	switch b.Name() {
	case "len":
		switch u := cc.Args[0].Type().Underlying().(type) {
		case *types.Slice:
			return tv(c.sLen(args[0].T))
		case *types.Basic:
			c.useStrings = true
			return tv("(str.len " + args[0].T + ")")
		case *types.Map:
			_, _, ln := c.mapHeaps(u)
			r := ite("(= "+args[0].T+" 0)", "0", sel(st.get(ln), args[0].T))
			c.assume(g, "(>= "+r+" 0)")
			return tv(r)
		case *types.Array:
			return tv(num(u.Len()))
		case *types.Pointer:
			return tv(num(u.Elem().Underlying().(*types.Array).Len()))
		}
		return f.havocValue("len", types.Typ[types.Int], st, g)
	case "cap":
		switch u := cc.Args[0].Type().Underlying().(type) {
		case *types.Slice:
			return tv(c.sCap(args[0].T))
		case *types.Array:
			return tv(num(u.Len()))
		case *types.Pointer:
			return tv(num(u.Elem().Underlying().(*types.Array).Len()))
		}
		return f.havocValue("cap", types.Typ[types.Int], st, g)
	case "append":
		return f.appendOp(in, cc, args, st, g)
	case "copy":
		return f.copyOp(in, cc, args, st, g)
	case "delete":
		m := cc.Args[0].Type().Underlying().(*types.Map)
		has, _, ln := c.mapHeaps(m)
		ref, k := args[0].T, args[1].T
		nz := "(not (= " + ref + " 0))"
		oldHas := sel(st.get(has), ref, k)
		f.x.frameCheck(st, has, ref, and(g, nz), f.where(in))
		st.set(ln, ite(nz, sto(st.get(ln), ref, ite(oldHas, "(- "+sel(st.get(ln), ref)+" 1)", sel(st.get(ln), ref))), st.get(ln)))
		st.set(has, ite(nz, sto(st.get(has), ref, sto(sel(st.get(has), ref), k, "false")), st.get(has)))
		return SV{}
	case "print", "println":
		return SV{}
	case "min", "max":
		r := args[0].T
		op := "<="
		if b.Name() == "max" {
			op = ">="
		}
		for _, a := range args[1:] {
			r = ite("("+op+" "+r+" "+a.T+")", r, a.T)
		}
		return tv(r)
	case "recover":
		c.note("abstraction: recover() in %s returns nil", f.fn)
		return tv("(mk-iface 0 0)")
	case "ssa:wrapnilchk":
		c.oblige("nil", f.sweepTags(), g, "(not (= "+args[0].T+" 0))", f.where(in), "nil receiver in method value")
		return args[0]
	case "clear":
		f.havocArg(args[0], cc.Args[0].Type(), st, g, f.where(in), false)
		return SV{}
	}
	c.note("abstraction: builtin %s havocked in %s", b.Name(), f.fn)
	if rt := resultType(cc); rt != nil {
		return f.havocValue("builtin", rt, st, g)
	}
	return SV{}
}

const unrollCopy = 64

// copyRange writes n elements from (srcArr, srcOff) into dstArr at dstOff. n may be symbolic.
func (f *Frame) copyRange(dstArr, dstOff, srcArr, srcOff, n string, elemSort string, g string) string {
	c := f.c()
	if k, ok := isNum(n); ok && k <= unrollCopy {
		out := dstArr
		for i := int64(0); i < k; i++ {
			out = sto(out, add(dstOff, num(i)), sel(srcArr, add(srcOff, num(i))))
		}
		return out
	}
	na := c.freshConst("cp", "(Array Int "+elemSort+")")
	c.quant = true
	j := qsym(c.freshName("j"))
	c.assume(g, fmt.Sprintf("(forall ((%[1]s Int)) (! (= (select %[2]s %[1]s) (ite (and (<= %[3]s %[1]s) (< %[1]s (+ %[3]s %[4]s))) (select %[5]s (+ (- %[1]s %[3]s) %[6]s)) (select %[7]s %[1]s))) :pattern ((select %[2]s %[1]s))))",
		j, na, dstOff, n, srcArr, srcOff, dstArr))
	return na
}

func (f *Frame) copyOp(in ssa.Instruction, cc *ssa.CallCommon, args []SV, st *State, g string) SV {
	c := f.c()
	f.x.syncViews(st)
	dst, src := args[0].T, args[1].T
	elem := cc.Args[0].Type().Underlying().(*types.Slice).Elem()
	eh := c.elemHeap(elem)
	var srcArr, srcOff, srcLen string
	if _, isStr := cc.Args[1].Type().Underlying().(*types.Basic); isStr {
		c.useStrings = true
		sa := c.freshConst("strbytes", "(Array Int Int)")
		c.quant = true
		j := qsym(c.freshName("j"))
		c.assume(g, fmt.Sprintf("(forall ((%[1]s Int)) (! (=> (and (<= 0 %[1]s) (< %[1]s (str.len %[2]s))) (= (select %[3]s %[1]s) (str.to_code (str.at %[2]s %[1]s)))) :pattern ((select %[3]s %[1]s))))", j, src, sa))
		srcArr, srcOff, srcLen = sa, "0", "(str.len "+src+")"
	} else {
		srcArr, srcOff, srcLen = sel(st.get(eh), c.sRef(src)), c.sOff(src), c.sLen(src)
	}
	dl := c.sLen(dst)
	sl := srcLen
	n := ite("(<= "+dl+" "+sl+")", dl, sl)
	if a, ok := isNum(dl); ok {
		if b, ok := isNum(sl); ok {
			if a < b {
				n = num(a)
			} else {
				n = num(b)
			}
		}
	}
	f.x.frameCheck(st, eh, c.sRef(dst), and(g, c.simplify("(> "+n+" 0)")), f.where(in), c.sOff(dst), c.simplify("(+ "+c.sOff(dst)+" "+n+")"))
	na := f.copyRange(sel(st.get(eh), c.sRef(dst)), c.sOff(dst), srcArr, srcOff, n, c.sortOf(elem), g)
	st.set(eh, ite(c.simplify("(> "+n+" 0)"), sto(st.get(eh), c.sRef(dst), na), st.get(eh)))
	f.x.syncViews(st)
	return tv(n)
}

var mkSliceRe = regexp.MustCompile(`^\(mk-slice (\S+) (\S+|\([^()]*\)) (\d+) (\d+)\)$`)

// simplifyLen returns the literal length of a slice term when syntactically evident.
func simplifyLen(s string) string {
	return "(s.len " + s + ")"
}

func (f *Frame) appendOp(in ssa.Instruction, cc *ssa.CallCommon, args []SV, st *State, g string) SV {
	c := f.c()
	f.x.syncViews(st)
	s, t := args[0].T, args[1].T
	elem := cc.Args[0].Type().Underlying().(*types.Slice).Elem()
	es := c.sortOf(elem)
	eh := c.elemHeap(elem)
	var tArr, tOff, tLen string
	if _, isStr := cc.Args[1].Type().Underlying().(*types.Basic); isStr {
		c.useStrings = true
		tArr, tOff, tLen = c.freshConst("strbytes", "(Array Int Int)"), "0", "(str.len "+t+")"
	} else {
		tArr, tOff, tLen = sel(st.get(eh), "(s.ref "+t+")"), "(s.off "+t+")", "(s.len "+t+")"
		if n, ok := f.constSliceLen(cc.Args[1]); ok {
			tLen = num(n)
		}
	}
	sLen := "(s.len " + s + ")"
	oldH := st.get(eh)
	n := c.freshConst("applen", "Int")
	c.assert(eq(n, "(+ "+sLen+" "+tLen+")"))
	fits := c.freshConst("appfits", "Bool")
	c.assert(eq(fits, "(and (<= "+n+" (s.cap "+s+")) (not (= (s.ref "+s+") 0)))"))
	// in place
	inArr := f.copyRange(sel(st.get(eh), "(s.ref "+s+")"), "(+ (s.off "+s+") "+sLen+")", tArr, tOff, tLen, es, and(g, fits))
	// fresh
	r := st.alloc()
	ncap := c.freshConst("appcap", "Int")
	c.assert("(>= " + ncap + " " + n + ")")
	c.assert("(<= " + ncap + " (+ (* 2 " + n + ") 1024))")
	base := f.copyRange(c.zero(types.NewArray(elem, 0)), "0", sel(st.get(eh), "(s.ref "+s+")"), "(s.off "+s+")", sLen, es, and(g, not(fits)))
	frArr := f.copyRange(base, sLen, tArr, tOff, tLen, es, and(g, not(fits)))
	f.x.frameCheck(st, eh, "(s.ref "+s+")", and(g, fits, "(> "+tLen+" 0)"), f.where(in), "(+ (s.off "+s+") "+sLen+")", "(+ (s.off "+s+") "+sLen+" "+tLen+")")
	// amortised cost model of append: growing by doubling allocates at most ~3x the bytes appended in total
	f.x.chargeAllocBytes(st, g, fmt.Sprintf("(* %d %s)", 3*maxi(1, types.SizesFor("gc", "amd64").Sizeof(elem)), tLen))
	st.set(eh, ite(fits, sto(st.get(eh), "(s.ref "+s+")", inArr), sto(st.get(eh), r, frArr)))
	res := ite(fits, fmt.Sprintf("(mk-slice (s.ref %[1]s) (s.off %[1]s) %[2]s (s.cap %[1]s))", s, n),
		fmt.Sprintf("(mk-slice %s 0 %s %s)", r, n, ncap))
	// append(nil, <empty>...) stays nil
	res = ite("(and (= (s.ref "+s+") 0) (= "+tLen+" 0))", "(mk-slice 0 0 0 0)", res)
	f.x.syncViews(st)
	if rc := f.x.root; rc != nil && rc.contract != nil && rc.contract.Flags["appendframe"] != "" {
		// Derived fact (implied by the two cases above), stated once with the old and once with the new element term as
		// pattern, so that quantified facts about the elements of s reach the result and vice versa:
		// the first len(s) elements of the result are the elements of s.
		rn := c.freshConst("appres", "Slice")
		c.assert(eq(rn, res))
		res = rn
		c.quant = true
		newH := st.get(eh)
		j := qsym(c.freshName("j_app"))
		oldAt := func(ix string) string { return fmt.Sprintf("(select (select %s (s.ref %s)) %s)", oldH, s, ix) }
		newAt := func(ix string) string { return fmt.Sprintf("(select (select %s (s.ref %s)) %s)", newH, rn, ix) }
		c.assume(g, fmt.Sprintf("(forall ((%[1]s Int)) (! (=> (and (<= (s.off %[2]s) %[1]s) (< %[1]s (+ (s.off %[2]s) %[3]s))) (= %[4]s %[5]s)) :pattern (%[5]s)))",
			j, s, sLen, newAt("(+ "+j+" (- (s.off "+rn+") (s.off "+s+")))"), oldAt(j)))
		c.assume(g, fmt.Sprintf("(forall ((%[1]s Int)) (! (=> (and (<= (s.off %[2]s) %[1]s) (< %[1]s (+ (s.off %[2]s) %[3]s))) (= %[4]s %[5]s)) :pattern (%[4]s)))",
			j, rn, sLen, newAt(j), oldAt("(+ "+j+" (- (s.off "+s+") (s.off "+rn+")))")))
	}
	return tv(res)
}

func maxi(a, b int64) int64 {
	if a > b {
		return a
	}
	return b
}

// constSliceLen recognises the varargs pattern slice(new [N]T)[:]
func (f *Frame) constSliceLen(v ssa.Value) (int64, bool) {
	sl, ok := v.(*ssa.Slice)
	if !ok || sl.Low != nil || sl.High != nil {
		return 0, false
	}
	if p, ok := sl.X.Type().Underlying().(*types.Pointer); ok {
		if a, ok := p.Elem().Underlying().(*types.Array); ok {
			return a.Len(), true
		}
	}
	return 0, false
}

// Bit footprints: bitsOf(t) = [lo, hi) means term t is a non-negative integer whose set bits all lie in
// positions lo..hi-1 (recorded for widened unsigned values and constant shifts of them).
func (c *Ctx) noteBits(t string, lo, hi int) {
	if c.bitFoot == nil {
		c.bitFoot = map[string][2]int{}
	}
	c.bitFoot[t] = [2]int{lo, hi}
}

func (c *Ctx) bitsOf(t string) (int, int, bool) {
	if n, ok := isNum(t); ok && n >= 0 {
		if n == 0 {
			return 0, 0, true
		}
		lo, hi := 0, 0
		for n&1 == 0 {
			n >>= 1
			lo++
		}
		hi = lo
		for n != 0 {
			n >>= 1
			hi++
		}
		return lo, hi, true
	}
	r, ok := c.bitFoot[t]
	return r[0], r[1], ok
}

func mini(a, b int) int {
	if a < b {
		return a
	}
	return b
}

func maxi2(a, b int) int {
	if a > b {
		return a
	}
	return b
}

func contractMentions(ct *Contract, name string) bool {
	re := regexp.MustCompile(`\b` + regexp.QuoteMeta(name) + `\b`)
	for _, cls := range [][]*Clause{ct.Ensures, ct.GhostSets} {
		for _, cl := range cls {
			if re.MatchString(cl.Text) {
				return true
			}
		}
	}
	return re.MatchString(ct.Flags["modifies"])
}
