package localkm

// Demonstration for C10 (fails before the fix): a signing failure during rotation (after the mutation
// object exists) still destroyed the old signing key and finalized an uncertified key as primary.
import (
	"context"
	"crypto"
	"errors"
	"math/big"
	"strings"
	"testing"
	"time"

	"github.com/google/gce-tcb-verifier/cmd"
	"github.com/google/gce-tcb-verifier/keys"
	"github.com/google/gce-tcb-verifier/rotate"
	"github.com/google/gce-tcb-verifier/sign/memca"
	styp "github.com/google/gce-tcb-verifier/sign/types"
	"github.com/google/gce-tcb-verifier/testing/testkm"
)

type failingSigner struct {
	styp.Signer
	fail bool
}

func (s *failingSigner) Sign(ctx context.Context, keyName string, d styp.Digest, o crypto.SignerOpts) ([]byte, error) {
	if s.fail {
		return nil, errors.New("injected signing fault")
	}
	return s.Signer.Sign(ctx, keyName, d, o)
}

func TestDemoC10SigningFaultDuringRotation(t *testing.T) {
	m, ctx1 := readyManager(context.Background(), t, []string{"--key_dir", t.TempDir()})
	ctx0, err := cmd.ComposeInitContext(ctx1, m, memca.Create())
	if err != nil {
		t.Fatal(err)
	}
	testkm.Bootstrap(ctx0, t)
	c, _ := keys.FromContext(ctx0)
	original, err := c.CA.PrimarySigningKeyVersion(ctx0)
	if err != nil {
		t.Fatal(err)
	}
	fs := &failingSigner{Signer: c.Signer, fail: true}
	c.Signer = fs
	ctx := rotate.NewSigningKeyContext(ctx0, &rotate.SigningKeyContext{SigningKeyCommonName: "cn", SigningKeySerial: big.NewInt(2), Now: time.Now()})
	if _, err := rotate.Key(ctx); err == nil || !strings.Contains(err.Error(), "injected") {
		t.Fatalf("rotate.Key = %v, want the injected fault", err)
	}
	fs.fail = false
	primary, err := c.CA.PrimarySigningKeyVersion(ctx0)
	if err != nil {
		t.Fatalf("no primary after failed rotation: %v", err)
	}
	if primary != original {
		t.Errorf("failed rotation changed the recorded primary key from %q to %q", original, primary)
	}
	if _, err := c.Signer.PublicKey(ctx0, primary); err != nil {
		t.Errorf("recorded primary key %q is not a live key after the failed rotation: %v", primary, err)
	}
	if cert, err := c.CA.Certificate(ctx0, primary); err != nil || len(cert) == 0 {
		t.Errorf("recorded primary key %q has no certificate after the failed rotation: %v", primary, err)
	}
	if _, err := c.Signer.PublicKey(ctx0, original); err != nil {
		t.Errorf("old key %q was destroyed by a rotation that failed: %v", original, err)
	}
}
