package ovmf

// Demonstration for C08 (panics before the fix): hostile SEV metadata offsets/counts in an otherwise
// well-formed image make firmware analysis panic instead of returning an error:
//  * a metadata offset smaller than the 16-byte header slices past the end of the image;
//  * a section count of 0x15555556 makes count*12+16 wrap to 24 in 32-bit arithmetic, passes the
//    length check, and the section loop runs off the end of the image.
import (
	"encoding/binary"
	"testing"

	"github.com/google/gce-tcb-verifier/ovmf/abi"
	"github.com/google/gce-tcb-verifier/testing/fakeovmf"
)

func TestDemoC08SevMetadataBounds(t *testing.T) {
	for _, tc := range []struct {
		name   string
		mutate func(fw []byte)
	}{
		{"offset below header size", func(fw []byte) {
			fakeovmf.MutateSevMetadataOffsetBlock(fw, func(m *abi.MetadataOffset) error { m.Offset = 8; return nil })
		}},
		{"section count wraps 32-bit product", func(fw []byte) {
			var off uint32
			fakeovmf.MutateSevMetadataOffsetBlock(fw, func(m *abi.MetadataOffset) error { off = m.Offset; return nil })
			hdr := fw[len(fw)-int(off):]
			binary.LittleEndian.PutUint32(hdr[4:8], 24)           // Length
			binary.LittleEndian.PutUint32(hdr[12:16], 0x15555556) // Sections: *12+16 == 24 (mod 2^32)
		}},
	} {
		t.Run(tc.name, func(t *testing.T) {
			fw := make([]byte, 0x1000)
			if err := fakeovmf.InitializeSevGUIDTable(fw, abi.FwGUIDTableEndOffset, fakeovmf.SevEsAddrVal, fakeovmf.DefaultSnpSections()); err != nil {
				t.Fatal(err)
			}
			tc.mutate(fw)
			defer func() {
				if r := recover(); r != nil {
					t.Fatalf("ExtractFromFirmware panicked: %v", r)
				}
			}()
			d := &SevData{SevEs: true, SevSnp: true}
			if err := d.ExtractFromFirmware(fw); err == nil {
				t.Fatalf("malformed metadata accepted")
			}
		})
	}
}
