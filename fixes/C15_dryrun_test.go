package endorse

// Demonstration for C15 (panics before the fix): with DryRun set no workspace exists (cops == nil) but
// the change function still called file operations on it, with and without a snapshot directory.
import (
	"context"
	"testing"

	epb "github.com/google/gce-tcb-verifier/proto/endorsement"
)

type demoVCS struct{ t *testing.T }

func (v demoVCS) GetChangeOps(context.Context) (ChangeOps, error) {
	v.t.Errorf("dry run created a workspace")
	return nil, nil
}
func (demoVCS) RetriableError(error) bool                     { return false }
func (demoVCS) Result(any, string)                            {}
func (demoVCS) ReleasePath(_ context.Context, p string) string { return p }

func TestDemoC15DryRun(t *testing.T) {
	for _, snap := range []string{"", "snapdir"} {
		func() {
			defer func() {
				if r := recover(); r != nil {
					t.Errorf("dry run (snapshot dir %q) panicked: %v", snap, r)
				}
			}()
			ctx := NewContext(context.Background(), &Context{DryRun: true, VCS: demoVCS{t}, SnapshotDir: snap, ImageName: "fw.fd", Image: []byte{1}})
			if err := commitEndorsement(ctx, &epb.VMLaunchEndorsement{}); err != nil {
				t.Errorf("dry run (snapshot dir %q) failed: %v", snap, err)
			}
		}()
	}
}
