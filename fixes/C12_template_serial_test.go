package localkm

// Demonstration for C12 (fails before the fix): after a rotation with the in-memory/local key manager
// the new signing certificate kept the *certificate* serial number of its predecessor (two certificates
// with the same serial from one issuer; certificate serial != subject serial).
import (
	"context"
	"crypto/x509"
	"math/big"
	"testing"
	"time"

	"github.com/google/gce-tcb-verifier/cmd"
	"github.com/google/gce-tcb-verifier/keys"
	"github.com/google/gce-tcb-verifier/rotate"
	"github.com/google/gce-tcb-verifier/sign/memca"
	"github.com/google/gce-tcb-verifier/testing/testkm"
)

func TestDemoC12RotatedSerial(t *testing.T) {
	m, ctx1 := readyManager(context.Background(), t, []string{"--key_dir", t.TempDir()})
	ctx, err := cmd.ComposeInitContext(ctx1, m, memca.Create())
	if err != nil {
		t.Fatal(err)
	}
	testkm.Bootstrap(ctx, t)
	c, _ := keys.FromContext(ctx)
	first, _ := c.CA.PrimarySigningKeyVersion(ctx)
	firstDer, _ := c.CA.Certificate(ctx, first)
	firstCert, _ := x509.ParseCertificate(firstDer)
	rctx := rotate.NewSigningKeyContext(ctx, &rotate.SigningKeyContext{SigningKeyCommonName: "cn", SigningKeySerial: big.NewInt(7), Now: time.Now()})
	if _, err := rotate.Key(rctx); err != nil {
		t.Fatal(err)
	}
	second, _ := c.CA.PrimarySigningKeyVersion(ctx)
	der, err := c.CA.Certificate(ctx, second)
	if err != nil {
		t.Fatal(err)
	}
	cert, err := x509.ParseCertificate(der)
	if err != nil {
		t.Fatal(err)
	}
	if cert.SerialNumber.String() != cert.Subject.SerialNumber {
		t.Errorf("rotated certificate: serial %v != subject serial %q", cert.SerialNumber, cert.Subject.SerialNumber)
	}
	if cert.SerialNumber.Cmp(firstCert.SerialNumber) == 0 {
		t.Errorf("rotated certificate reuses the predecessor's certificate serial %v", cert.SerialNumber)
	}
}
