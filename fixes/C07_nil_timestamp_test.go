package verifytest

// Demonstration for C07 (panics before the fix): an endorsement whose golden measurement has no
// timestamp (e.g. the empty message) makes verify.EndorsementProto dereference a nil Timestamp
// before any signature check.
import (
	"testing"
	"time"

	epb "github.com/google/gce-tcb-verifier/proto/endorsement"
	"github.com/google/gce-tcb-verifier/verify"
)

func TestDemoC07NilTimestamp(t *testing.T) {
	defer func() {
		if r := recover(); r != nil {
			t.Fatalf("verify.Endorsement panicked on untrusted bytes: %v", r)
		}
	}()
	if err := verify.EndorsementProto(&epb.VMLaunchEndorsement{}, &verify.Options{Now: time.Now()}); err == nil {
		t.Fatalf("empty endorsement accepted")
	}
	if err := verify.Endorsement(nil, &verify.Options{Now: time.Now()}); err == nil {
		t.Fatalf("empty endorsement accepted")
	}
}
