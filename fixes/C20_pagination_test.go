package gcpkms

// Demonstration for C20 (fails before the fix): with exactly one full page of key versions (100) the
// listing loops stopped only on a short page, took the empty continuation token of the (full) last page
// and started over from the first page for ever.
import (
	"context"
	"fmt"
	"testing"

	"cloud.google.com/go/kms/apiv1/kmspb"
	"google.golang.org/grpc"
)

type pagingKMS struct {
	kmspb.KeyManagementServiceClient
	versions []*kmspb.CryptoKeyVersion
	lists    int
}

func (k *pagingKMS) ListCryptoKeyVersions(_ context.Context, in *kmspb.ListCryptoKeyVersionsRequest, _ ...grpc.CallOption) (*kmspb.ListCryptoKeyVersionsResponse, error) {
	k.lists++
	if k.lists > 10 {
		panic("listing restarted")
	}
	pos := 0
	fmt.Sscanf(in.PageToken, "%d", &pos)
	end := pos + int(in.PageSize)
	next := fmt.Sprint(end)
	if end >= len(k.versions) {
		end, next = len(k.versions), ""
	}
	return &kmspb.ListCryptoKeyVersionsResponse{CryptoKeyVersions: k.versions[pos:end], NextPageToken: next, TotalSize: int32(len(k.versions))}, nil
}

func (k *pagingKMS) DestroyCryptoKeyVersion(_ context.Context, in *kmspb.DestroyCryptoKeyVersionRequest, _ ...grpc.CallOption) (*kmspb.CryptoKeyVersion, error) {
	for _, v := range k.versions {
		if v.Name == in.Name {
			v.State = kmspb.CryptoKeyVersion_DESTROY_SCHEDULED
		}
	}
	return nil, nil
}

func TestDemoC20FullLastPage(t *testing.T) {
	k := &pagingKMS{}
	for i := 0; i < keyPageSize; i++ {
		k.versions = append(k.versions, &kmspb.CryptoKeyVersion{Name: fmt.Sprint("v", i), State: kmspb.CryptoKeyVersion_ENABLED})
	}
	defer func() {
		if r := recover(); r != nil {
			t.Fatalf("wipeoutKey never terminates when the last page is full: %v after %d list calls", r, k.lists)
		}
	}()
	m := &Manager{KeyClient: k}
	if err := m.wipeoutKey(context.Background(), "key"); err != nil {
		t.Fatal(err)
	}
	for _, v := range k.versions {
		if v.State == kmspb.CryptoKeyVersion_ENABLED {
			t.Fatalf("version %s left enabled", v.Name)
		}
	}
}
