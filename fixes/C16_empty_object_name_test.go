package extract

// Demonstration for C16 (fails before the fix): (1) an attestation that carries its endorsement locally
// plus --force_fetch, and (2) a certificate-table-only input (placeholder one-byte measurement) made
// extract.Endorsement issue network fetches for URLs not derived from a full-length measurement: the
// bucket root ".../gce_tcb_integrity/" and ".../sevsnp/00.binarypb".
import (
	"bytes"
	"strings"
	"testing"

	"github.com/google/gce-tcb-verifier/sev"
	spb "github.com/google/go-sev-guest/proto/sevsnp"
	"google.golang.org/protobuf/proto"
)

type recordingGetter struct{ urls []string }

func (g *recordingGetter) Get(url string) ([]byte, error) {
	g.urls = append(g.urls, url)
	return []byte("fetched"), nil
}

func checkURLs(t *testing.T, what string, g *recordingGetter) {
	for _, u := range g.urls {
		base := u[strings.LastIndex(u, "/")+1:]
		hexpart := strings.TrimSuffix(base, ".binarypb")
		if !strings.HasSuffix(base, ".binarypb") || len(hexpart) != 96 {
			t.Errorf("%s: fetched %q, which is not derived from a 48-byte measurement", what, u)
		}
	}
}

func TestDemoC16FetchWithoutMeasurement(t *testing.T) {
	meas := bytes.Repeat([]byte{7}, 48)
	local, _ := proto.Marshal(&spb.Attestation{
		Report:           &spb.Report{Measurement: meas},
		CertificateChain: &spb.CertificateChain{Extras: map[string][]byte{sev.GCEFwCertGUID: []byte("local blob")}},
	})
	g := &recordingGetter{}
	if _, err := Endorsement(&Options{Getter: g, Quote: local, ForceFetch: true}); err != nil {
		t.Logf("force fetch: %v", err)
	}
	checkURLs(t, "local blob + force fetch", g)

	short, _ := proto.Marshal(&spb.Attestation{Report: &spb.Report{Measurement: []byte{0}}})
	g2 := &recordingGetter{}
	Endorsement(&Options{Getter: g2, Quote: short})
	checkURLs(t, "one-byte measurement", g2)
}
