package abi

// Demonstration for C08 (fails before the fix): a TDX metadata header with SectionCount = 0x08000000 makes
// SectionCount*32 wrap to 0 in 32-bit arithmetic, passes the size check against a 16-byte tail, and the
// decoder then performs 134 million iterations / allocations for a 48-byte input.
import (
	"encoding/binary"
	"testing"
	"time"
)

func TestDemoC08TdxSectionCountWrap(t *testing.T) {
	data := make([]byte, 48)
	binary.LittleEndian.PutUint32(data[0:4], TDXMetadataDescriptorMagic)
	binary.LittleEndian.PutUint32(data[12:16], 0x08000000)
	done := make(chan error, 1)
	go func() { _, err := TDXMetadataFromBytes(data); done <- err }()
	select {
	case err := <-done:
		if err == nil {
			t.Fatalf("header declaring 2^27 sections accepted for a 48-byte input")
		}
	case <-time.After(2 * time.Second):
		t.Fatalf("TDXMetadataFromBytes still running after 2s on a 48-byte input (section count wrap)")
	}
}
