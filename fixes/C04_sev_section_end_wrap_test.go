// Demo for the C04/C08 defect fixed in ovmf/sev_data.go validateSections: section ends were computed in 32 bits
// (Address+Length wraps), so overlapping SNP metadata sections were accepted instead of rejected, and a small image
// could declare many ~4 GiB sections (each costing 2^20 digest updates).
// Run: /verif/tools/demo.sh /repo ovmf /verif/fixes/C04_sev_section_end_wrap_test.go TestFixC04SectionEndWrap
package ovmf

import (
	"testing"

	"github.com/google/gce-tcb-verifier/ovmf/abi"
)

func TestFixC04SectionEndWrap(t *testing.T) {
	d := &SevData{SevEs: true, SevSnp: true, snpMetadataSections: []abi.SevMetadataSection{
		{Address: 0x00800000, Length: 0xFFFFF000, Kind: abi.SevUnmeasuredSection}, // covers 0x800000..0x1007FF000
		{Address: 0x00900000, Length: 0x1000, Kind: abi.SevSecretSection},         // inside the first one
		{Address: 0x00A00000, Length: 0x1000, Kind: abi.SevCpuidSection},          // inside the first one
	}}
	if _, err := d.SnpMetadataSections(); err == nil {
		t.Fatalf("overlapping SNP metadata sections were accepted")
	}
}
