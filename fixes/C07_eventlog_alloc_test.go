package eventlog

// Demonstrations for C07 / C18 (fail before the fix):
//  * a 44-byte event log whose event-data size field says 0xFFFFFFF0 made TCGEventData.Unmarshal allocate
//    4 GiB up front (likewise readSizedArray / Uint32SizedArrayT with declared counts);
//  * readSizedArray ignored short reads: a 1-byte-at-a-time reader, or a truncated input, produced a
//    silently zero-filled array that does not re-encode to the input.
import (
	"bytes"
	"encoding/binary"
	"runtime"
	"testing"
	"testing/iotest"
)

func allocDuring(f func()) uint64 {
	var a, b runtime.MemStats
	runtime.GC()
	runtime.ReadMemStats(&a)
	f()
	runtime.ReadMemStats(&b)
	return b.TotalAlloc - a.TotalAlloc
}

func TestDemoC07DeclaredSizeAllocation(t *testing.T) {
	input := binary.LittleEndian.AppendUint32(nil, 0x10000000) // declares 256 MiB, supplies 4 bytes
	input = append(input, 1, 2, 3, 4)
	if got := allocDuring(func() { (&TCGEventData{}).Unmarshal(bytes.NewReader(input)) }); got > 1<<20 {
		t.Errorf("TCGEventData.Unmarshal allocated %d bytes for an %d-byte input", got, len(input))
	}
	if got := allocDuring(func() { (&Uint32SizedArray{}).Unmarshal(bytes.NewReader(input)) }); got > 1<<20 {
		t.Errorf("Uint32SizedArray.Unmarshal allocated %d bytes for an %d-byte input", got, len(input))
	}
	if got := allocDuring(func() { (&Uint32SizedArrayT[*TaggedDigest]{}).Unmarshal(bytes.NewReader(input)) }); got > 1<<20 {
		t.Errorf("Uint32SizedArrayT.Unmarshal allocated %d bytes for an %d-byte input", got, len(input))
	}
}

func TestDemoC18ShortReadZeroFill(t *testing.T) {
	input := append(binary.LittleEndian.AppendUint32(nil, 4), 0xAA, 0xBB, 0xCC, 0xDD)
	a := &Uint32SizedArray{}
	if err := a.Unmarshal(iotest.OneByteReader(bytes.NewReader(input))); err == nil && !bytes.Equal(a.Data, input[4:]) {
		t.Errorf("short reads silently zero-filled the array: got % x, want % x", a.Data, input[4:])
	}
	b := &Uint32SizedArray{}
	if err := b.Unmarshal(bytes.NewReader(input[:6])); err == nil {
		t.Errorf("truncated input accepted and completed with zeros: % x", b.Data)
	}
}
