// Demo for the C18 defect fixed in sev/abi.go PutVmsa: reserved_11 is documented as 48 bytes (0x3B8..0x3E8, xcr0
// follows at 0x3E8) but the range handed to doReserved was 0x3B8..0x3F0, so a VMSA carrying the documented
// 48 zero bytes was refused. Run: /verif/tools/demo.sh /repo sev /verif/fixes/C18_vmsa_reserved11_test.go TestFixC18Reserved11
package sev

import (
	"testing"

	spb "github.com/google/gce-tcb-verifier/proto/sev"
)

func TestFixC18Reserved11(t *testing.T) {
	v := &spb.VmcbSaveArea{Reserved_11: make([]byte, 48), Xcr0: 1}
	data := make([]byte, SizeofVmsa)
	if err := PutVmsa(v, data); err != nil {
		t.Fatalf("PutVmsa refused a 48-byte zero reserved_11: %v", err)
	}
	if data[0x3E8] != 1 {
		t.Fatalf("xcr0 not at 0x3E8")
	}
}
