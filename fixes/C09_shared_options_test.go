package verifytest

// Demonstration for C09 (fails before the fix, passes after): the validator obtained once writes the
// per-call report measurement into the caller's shared Options, so (a) the caller's options are
// mutated and (b) a later check through the same options is decided by an earlier call's report.
import (
	"bytes"
	"testing"
	"time"

	"github.com/google/gce-tcb-verifier/verify"
	spb "github.com/google/go-sev-guest/proto/sevsnp"
)

func TestDemoC09SharedOptions(t *testing.T) {
	now := time.Now()
	opts := &verify.Options{Now: now}
	f := verify.SNPValidateFunc(opts)
	had := opts.SNP
	m := bytes.Repeat([]byte{0xAB}, 48)
	_ = f(&spb.Attestation{Report: &spb.Report{Measurement: m}}, []byte{1, 2, 3})
	if had == nil && opts.SNP != nil {
		t.Errorf("constructor/validator wrote caller's Options.SNP (%v)", opts.SNP)
	}
	if opts.SNP != nil && bytes.Equal(opts.SNP.Measurement, m) {
		t.Errorf("validator leaked this call's report measurement into the shared options")
	}
}
