package gcetcbendorsement

// Demonstration for C01 (fails before the fix): TdxValidate accepted a quote against an endorsement
// that carries no certificate and no signature at all, under an empty root pool.
// Demonstration for C02 (fails before the fix): a RAM size with no endorsed MRTD yielded a policy with
// an empty allow-list, which go-tdx-guest treats as "do not check MRTD".
import (
	"context"
	"crypto/x509"
	"testing"
	"time"

	epb "github.com/google/gce-tcb-verifier/proto/endorsement"
	tabi "github.com/google/go-tdx-guest/abi"
	tpb "github.com/google/go-tdx-guest/proto/tdx"
	"github.com/google/go-tdx-guest/testing/testdata"
	tpmpb "github.com/google/go-tpm-tools/proto/attest"
	"google.golang.org/protobuf/proto"
)

func demoQuote(t *testing.T) (*tpb.QuoteV4, []byte) {
	q, err := tabi.QuoteToProto(testdata.RawQuote)
	if err != nil {
		t.Fatal(err)
	}
	q4 := q.(*tpb.QuoteV4)
	at, err := proto.Marshal(&tpmpb.Attestation{TeeAttestation: &tpmpb.Attestation_TdxAttestation{TdxAttestation: q4}})
	if err != nil {
		t.Fatal(err)
	}
	return q4, at
}

func TestDemoC01TdxValidateUnverified(t *testing.T) {
	q4, at := demoQuote(t)
	golden, _ := proto.Marshal(&epb.VMGoldenMeasurement{
		ClSpec: 1,
		Tdx:    &epb.VMTdx{Measurements: []*epb.VMTdx_Measurement{{RamGib: 16, Mrtd: q4.GetTdQuoteBody().GetMrTd()}}},
	})
	unsigned := &epb.VMLaunchEndorsement{SerializedUefiGolden: golden} // no signature, no certificate
	err := TdxValidate(context.Background(), at, &TdxValidateOptions{
		Endorsement:  unsigned,
		RootsOfTrust: x509.NewCertPool(),
		Now:          time.Now(),
	})
	if err == nil {
		t.Fatalf("TdxValidate accepted an unsigned endorsement under an empty root pool")
	}
}

func TestDemoC02TdxPolicyUnlistedRAM(t *testing.T) {
	golden, _ := proto.Marshal(&epb.VMGoldenMeasurement{
		Tdx: &epb.VMTdx{Measurements: []*epb.VMTdx_Measurement{{RamGib: 16, Mrtd: make([]byte, 48)}}},
	})
	pol, err := TdxPolicy(context.Background(), &epb.VMLaunchEndorsement{SerializedUefiGolden: golden}, &TdxPolicyOptions{RAMGiB: 7})
	if err == nil {
		t.Fatalf("TdxPolicy returned a policy with %d allowed MRTDs for an unlisted RAM size (empty list = unchecked)", len(pol.GetTdQuoteBodyPolicy().GetAnyMrTd()))
	}
}
