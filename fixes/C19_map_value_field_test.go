package parsepath

// Demonstration for C19 (fails before the fix): after a map index the descriptor cursor was not advanced
// to the map's value type, so a following field access was resolved against the synthetic map-entry
// message (fields 1 and 2 only): strkeymap["k"].bytesfield (field 3) and .nested (field 4) were reported
// missing although a field-by-field walk finds them.
import (
	"bytes"
	"testing"

	pb "github.com/google/gce-tcb-verifier/gcetcbendorsement/parsepath/testmessage"
)

func TestDemoC19FieldAfterMapIndex(t *testing.T) {
	m := &pb.Test{Strkeymap: map[string]*pb.Test_Nested{"k": {Intfield: 7, Bytesfield: []byte("payload"), Nested: &pb.Test{}}}}
	p, err := ParsePath(m.ProtoReflect().Descriptor(), `strkeymap["k"].bytesfield`)
	if err != nil {
		t.Fatal(err)
	}
	vs, err := PathValues(p, m)
	if err != nil {
		t.Fatalf("PathValues(%v) = %v; the walk value is %q", p, err, m.Strkeymap["k"].Bytesfield)
	}
	if got := vs.Index(-1).Value.Bytes(); !bytes.Equal(got, []byte("payload")) {
		t.Fatalf("got %q", got)
	}
}
