// Demo for the C19 defect fixed in gcetcbendorsement/parsepath: "repeats.nested" (field access through a repeated field
// without an index) was accepted by ParsePath, and PathValues then panicked ("type mismatch: cannot convert list to
// message"). (Observed by a seeding sub-agent on the unchanged tree; the path evaluator is not under contract.)
// Run: /verif/tools/demo.sh /repo/gcetcbendorsement parsepath /verif/fixes/C19_field_access_on_list_test.go TestFixC19FieldAccessOnList
package parsepath

import (
	"testing"

	pb "github.com/google/gce-tcb-verifier/gcetcbendorsement/parsepath/testmessage"
)

func TestFixC19FieldAccessOnList(t *testing.T) {
	msg := &pb.Test{Repeats: []*pb.Test{{Nested: &pb.Test_Nested{Stringfield: "x"}}}}
	md := msg.ProtoReflect().Descriptor()
	defer func() {
		if r := recover(); r != nil {
			t.Fatalf("path evaluation panicked: %v", r)
		}
	}()
	p, err := ParsePath(md, "repeats.nested")
	if err != nil {
		return // refused at parse time: fine
	}
	if _, err := PathValues(p, msg); err == nil {
		t.Fatalf("repeats.nested evaluated without error")
	}
}
