package endorse

// Demonstration for C14 (fails before the fix): with the most negative retry budget the computation
// `remain := CommitRetries - tries` wraps around to a huge positive number, so a submission that keeps
// failing retriably is retried without bound instead of being attempted once.
import (
	"context"
	"errors"
	"math"
	"testing"
)

type demoRetryVCS struct{ attempts *int }

func (v demoRetryVCS) GetChangeOps(context.Context) (ChangeOps, error) {
	*v.attempts++
	if *v.attempts > 5 {
		panic("too many attempts")
	}
	return nil, errors.New("retriable")
}
func (demoRetryVCS) RetriableError(error) bool                     { return true }
func (demoRetryVCS) Result(any, string)                            {}
func (demoRetryVCS) ReleasePath(_ context.Context, p string) string { return p }

func TestDemoC14RetryBudgetOverflow(t *testing.T) {
	attempts := 0
	defer func() {
		if r := recover(); r != nil {
			t.Fatalf("negative retry budget: %d attempts and counting (want 1)", attempts)
		}
	}()
	ctx := NewContext(context.Background(), &Context{CommitRetries: math.MinInt64, VCS: demoRetryVCS{&attempts}})
	err := RetrySubmit(ctx, func(context.Context, ChangeOps) (string, error) { return "", nil })
	if err == nil || attempts != 1 {
		t.Fatalf("negative retry budget: err=%v attempts=%d, want an error after 1 attempt", err, attempts)
	}
}
