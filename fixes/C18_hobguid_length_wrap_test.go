// Demo for the C18 defect fixed in ovmf/abi/pihob.go: MaxGUIDHOBDataSize was 0x10000-24, so 65512 bytes of data were
// accepted by CreateEFIHOBGUID although 24+65512 does not fit the 16-bit HobLength: the header said length 0 and
// the HOB could not be written back. Run: /verif/tools/demo.sh /repo ovmf/abi /verif/fixes/C18_hobguid_length_wrap_test.go TestFixC18HobGUIDLengthWrap
package abi

import (
	"bytes"
	"testing"

	"github.com/google/uuid"
)

func TestFixC18HobGUIDLengthWrap(t *testing.T) {
	h, err := CreateEFIHOBGUID(uuid.MustParse(Tcg800155PlatformIDEventHobGUID), make([]byte, 0x10000-SizeofHOBGUID))
	if err != nil {
		return // refused: fine
	}
	if int(h.Header.HobLength) != SizeofHOBGUID+len(h.Data) {
		t.Fatalf("accepted HOB has HobLength %d for %d bytes of data", h.Header.HobLength, len(h.Data))
	}
	if _, err := h.WriteTo(&bytes.Buffer{}); err != nil {
		t.Fatalf("accepted HOB cannot be written: %v", err)
	}
}
