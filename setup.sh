#!/bin/bash
# Builds the verifier offline from vendored sources.
set -e
cd "$(dirname "$0")/engine"
export GOPROXY=off GOSUMDB=off GOTOOLCHAIN=local GOFLAGS=-mod=vendor
mkdir -p ../bin ../evidence
go build -o ../bin/govc .
echo "govc built"
