package endorse

// Demonstration of known finding C13/snapshot-clobber: in snapshot mode the signed endorsement
// "<image>.signed" is written with no existence check, so a second run for the same image name replaces
// the existing endorsement file although overwriting was not permitted.
import (
	"context"
	"testing"

	epb "github.com/google/gce-tcb-verifier/proto/endorsement"
)

type memCops struct {
	files map[string][]byte
	t     *testing.T
}

func (c *memCops) WriteOrCreateFiles(_ context.Context, files ...*File) error {
	for _, f := range files {
		if old, ok := c.files[f.Path]; ok && string(old) != string(f.Contents) && len(f.Path) > 7 && f.Path[len(f.Path)-7:] == ".signed" {
			c.t.Errorf("existing endorsement file %q replaced without overwrite permission", f.Path)
		}
		c.files[f.Path] = f.Contents
	}
	return nil
}
func (c *memCops) ReadFile(_ context.Context, p string) ([]byte, error) { return c.files[p], nil }
func (c *memCops) SetBinaryWritable(context.Context, string) error       { return nil }
func (c *memCops) IsNotFound(error) bool                                 { return false }
func (c *memCops) Destroy()                                              {}
func (c *memCops) TryCommit(context.Context) (any, error)                { return nil, nil }

type memVCS struct{ cops *memCops }

func (v memVCS) GetChangeOps(context.Context) (ChangeOps, error)    { return v.cops, nil }
func (memVCS) RetriableError(error) bool                            { return false }
func (memVCS) Result(any, string)                                   {}
func (memVCS) ReleasePath(_ context.Context, p string) string       { return p }

func TestFindingC13SnapshotClobber(t *testing.T) {
	cops := &memCops{files: map[string][]byte{}, t: t}
	ctx := NewContext(context.Background(), &Context{VCS: memVCS{cops}, SnapshotDir: "snap", ImageName: "fw.fd", Image: []byte{1}})
	if err := commitEndorsement(ctx, &epb.VMLaunchEndorsement{Signature: []byte("first")}); err != nil {
		t.Fatal(err)
	}
	if err := commitEndorsement(ctx, &epb.VMLaunchEndorsement{Signature: []byte("second")}); err != nil {
		t.Fatal(err)
	}
}
