// Demonstrations of the C08 known findings: 64-bit MemorySize values of TD HOB / TempMem sections in the TDVF metadata
// are used unchecked as allocation sizes and loop bounds.
// Run: /verif/tools/demo.sh /repo tdx /verif/findings/C08_tdx_unbounded_sizes_test.go 'TestFindingC08'
package tdx

import (
	"testing"
	"time"

	"github.com/google/gce-tcb-verifier/ovmf/abi"
	"github.com/google/gce-tcb-verifier/testing/fakeovmf"
)

func c08Image(t *testing.T, extra *abi.TDXMetadataSection) []byte {
	t.Helper()
	fw := make([]byte, 0x1000)
	meta := &abi.TDXMetadata{
		Header: &abi.TDXMetadataDescriptor{Signature: abi.TDXMetadataDescriptorMagic, Length: 16 + 32*2, Version: abi.TDXMetadataVersion, SectionCount: 2},
		Sections: []*abi.TDXMetadataSection{
			{DataOffset: 0, DataSize: 0x1000, MemoryBase: 0xfffff000, MemorySize: 0x1000, SectionType: abi.TDXMetadataSectionTypeBFV, Attributes: 1},
			extra,
		},
	}
	if extra.SectionType != abi.TDXMetadataSectionTypeTDHOB {
		meta.Header.SectionCount, meta.Header.Length = 3, 16+32*3
		meta.Sections = append(meta.Sections, &abi.TDXMetadataSection{MemoryBase: 0x809000, MemorySize: 0x2000, SectionType: abi.TDXMetadataSectionTypeTDHOB})
	}
	if err := fakeovmf.InitializeGUIDTable(fw, abi.FwGUIDTableEndOffset, []uint16{abi.SizeofMetadataOffset}, fakeovmf.InitializeTdxGUIDTableFns(fw, 0x100, meta)); err != nil {
		t.Fatal(err)
	}
	return fw
}

func run(t *testing.T, opts *LaunchOptions, fw []byte, limit time.Duration) {
	t.Helper()
	done := make(chan string, 1)
	go func() {
		defer func() {
			if r := recover(); r != nil {
				done <- "panic: " + toString(r)
			}
		}()
		_, err := MRTD(opts, fw)
		if err != nil {
			t.Logf("MRTD returned error: %v", err)
		}
		done <- ""
	}()
	select {
	case s := <-done:
		if s != "" {
			t.Fatalf("a 4 KiB image made MRTD %s", s)
		}
	case <-time.After(limit):
		t.Fatalf("a 4 KiB image kept MRTD running for more than %v", limit)
	}
}

func toString(r any) string {
	if e, ok := r.(error); ok {
		return e.Error()
	}
	if s, ok := r.(string); ok {
		return s
	}
	return "?"
}

// TD HOB section of 2^63 bytes: bytes.Buffer.Grow is called with a negative count.
func TestFindingC08TdHobGrow(t *testing.T) {
	fw := c08Image(t, &abi.TDXMetadataSection{MemoryBase: 1 << 32, MemorySize: 1 << 63, SectionType: abi.TDXMetadataSectionTypeTDHOB})
	run(t, LaunchOptionsDefault(""), fw, 5*time.Second)
}

// TempMem section of 2^62 bytes in the measure-all mode: make([]byte, 2^62).
func TestFindingC08ZeroExtendAlloc(t *testing.T) {
	fw := c08Image(t, &abi.TDXMetadataSection{MemoryBase: 1 << 32, MemorySize: 1 << 62, SectionType: abi.TDXMetadataSectionTypeTempMem})
	run(t, &LaunchOptions{MeasureAllRegions: true}, fw, 5*time.Second)
}

// TempMem section of 2^50 bytes, not measured: 2^42 loop iterations.
func TestFindingC08InitMemoryRegionTime(t *testing.T) {
	fw := c08Image(t, &abi.TDXMetadataSection{MemoryBase: 1 << 32, MemorySize: 1 << 50, SectionType: abi.TDXMetadataSectionTypeTempMem})
	run(t, LaunchOptionsDefault(""), fw, 3*time.Second)
}
